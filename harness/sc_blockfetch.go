package sim

import (
	"bytes"
	"context"
	"fmt"
	"time"

	ouroboros "github.com/blinklabs-io/gouroboros"
	"github.com/blinklabs-io/gouroboros/cbor"
	"github.com/blinklabs-io/gouroboros/ledger"
	"github.com/blinklabs-io/gouroboros/pipeline"
	"github.com/blinklabs-io/gouroboros/protocol/blockfetch"
	pcommon "github.com/blinklabs-io/gouroboros/protocol/common"
	rt "github.com/blinklabs-io/gouroboros/verifsimrt"
)

// Scenario BLOCKFETCH (C23): a real block-fetch client against (a) a real server
// Connection backed by a model block store (range requests) and (b) a raw
// server that answers a single-block request with every batch shape.

func init() {
	register(&Scenario{Name: "bf-range", Setup: bfRangeSetup})
	register(&Scenario{Name: "bf-single", Setup: bfSingleSetup})
}

// bfStallBudget keeps the injected stalls (F12) of a block-fetch run below the
// protocol's own shortest timeout: the client gives up 5 s after RequestRange
// if no StartBatch/NoBlocks has been handled. During a bulk transfer over a
// small socket buffer the muxer reader is often the only runnable task, so
// every stall lands on it; unbounded, some 30 stalls of 200 ms add up to that
// timeout and the library, rightly, ends the protocol (a slow node, not a
// wrong answer). At most 1.5 s of stall is injected in any 5 simulated seconds;
// stalls beyond that still deschedule their task, for 1 ms.
func bfStallBudget(s *rt.Sim) {
	s.Cfg.StallWindow = 5 * time.Second
	s.Cfg.StallBudget = 1500 * time.Millisecond
}

func wrappedBlockMsg(b fixBlock) []byte {
	wb, err := cbor.Encode([]any{b.Type, cbor.RawMessage(b.Data)})
	if err != nil {
		panic(err)
	}
	m := blockfetch.NewMsgBlock(wb)
	out, err := cbor.Encode(m)
	if err != nil {
		panic(err)
	}
	return out
}

func bfRangeSetup(s *rt.Sim, tier string) func() {
	schedCfg(s, true)
	s.Cfg.MaxSteps = 80000
	s.Cfg.MaxStall = 200 * time.Millisecond
	bfStallBudget(s)
	s.Cfg.Horizon = 6 * time.Hour
	return func() {
		ncfg := drawNetCfg(true)
		if ncfg.BufCap > 0 && ncfg.BufCap < 8192 {
			ncfg.BufCap = 8192
		}
		if ncfg.Latency > 20*time.Millisecond {
			ncfg.Latency = 20 * time.Millisecond
		}
		ncfg.Jitter = 0
		pair := NewPair(ncfg)
		blocks := fixBlocks()
		// what the server will serve for the next range request
		var served []fixBlock
		batchN := 0
		var delivered []string
		var deliveredRaw [][]byte
		completions := 0
		useRaw := chance("cfg", 1, 2)
		slow := chance("cfg", 1, 3)
		serverSide := func(ctx blockfetch.CallbackContext, start, end pcommon.Point) error {
			batchN++
			n := pick("op", 6)
			if n == 0 {
				return ctx.Server.NoBlocks()
			}
			if err := ctx.Server.StartBatch(); err != nil {
				return err
			}
			queued := 0
			for i := 0; i < n; i++ {
				b := blocks[pick("op", len(blocks))]
				// an honest server keeps what it queues below the protocol's own
				// send-queue byte limit (2.5 MB in Busy/Streaming); the 648 KB
				// epoch-boundary block would exceed it when queued four times
				if queued+len(b.Data) > 2000000 {
					b = blocks[0]
				}
				queued += len(b.Data)
				served = append(served, b)
				if err := ctx.Server.Block(b.Type, b.Data); err != nil {
					return err
				}
			}
			return ctx.Server.BatchDone()
		}
		record := func(t uint, h []byte) {
			delivered = append(delivered, fmt.Sprintf("%d/%x", t, h[:6]))
			if slow && chance("op", 1, 3) {
				sleep(oneOf("op", 10*time.Millisecond, time.Second))
			}
		}
		var cliOpts []blockfetch.BlockFetchOptionFunc
		if useRaw {
			cliOpts = append(cliOpts, blockfetch.WithBlockRawFunc(func(ctx blockfetch.CallbackContext, t uint, raw []byte) error {
				deliveredRaw = append(deliveredRaw, raw)
				b, err := ledger.NewBlockFromCbor(t, raw)
				if err != nil {
					return err
				}
				record(t, b.Hash().Bytes())
				return nil
			}))
		} else {
			cliOpts = append(cliOpts, blockfetch.WithBlockFunc(func(ctx blockfetch.CallbackContext, t uint, b ledger.Block) error {
				record(t, b.Hash().Bytes())
				return nil
			}))
		}
		// knob (own stream): the application does not ask to be told when a batch is complete
		// (no BatchDoneFunc); completion is then observed through the blocks themselves
		noBatchDone := rt.Choose("cfg.x", 3) == 2
		if !noBatchDone {
			cliOpts = append(cliOpts, blockfetch.WithBatchDoneFunc(func(blockfetch.CallbackContext) error { completions++; return nil }))
		} else {
			rt.Hit("bf.no-batch-done-callback")
		}
		// arm (own stream of draws): the client hands the blocks of a range to a real BlockPipeline
		// instead of the block callback; the pipeline's ApplyFunc is then "the block callback"
		var pl *pipeline.BlockPipeline
		if rt.Choose("cfg.x", 3) == 2 {
			pl = pipeline.NewBlockPipeline(
				pipeline.WithDecodeWorkers(oneOf("cfg.x", 1, 2, 4, 8)),
				pipeline.WithPrefetchBufferSize(1+rt.Choose("cfg.x", 8)),
				pipeline.WithSkipBodyHashValidation(true),
				pipeline.WithApplyFunc(func(item *pipeline.BlockItem) error {
					if b := item.Block(); b != nil {
						// the record the main task polls (delivered) is written last
						if useRaw {
							deliveredRaw = append(deliveredRaw, item.RawCbor())
						}
						record(item.BlockType(), b.Hash().Bytes())
					}
					return nil
				}),
			)
			if err := pl.Start(context.Background()); err != nil {
				rt.Violate("C23/pipeline-start-failed", "Start: %v", err)
				return
			}
			go func() {
				for range pl.Results() {
				}
			}()
			go func() {
				for range pl.Errors() {
				}
			}()
			cliOpts = append(cliOpts, blockfetch.WithPipeline(pl))
			rt.Hit("bf.range-through-pipeline")
		}
		cCfg, _ := blockfetch.NewConfig(cliOpts...)
		sCfg, _ := blockfetch.NewConfig(blockfetch.WithRequestRangeFunc(serverSide))
		co := connOpts{ntn: true, magic: 42, keepAlive: true}
		so := connOpts{ntn: true, magic: 42, server: true}
		var cConn, sConn *ouroboros.Connection
		var cErr, sErr error
		cRet, sRet := false, false
		go func() {
			sConn, sErr = ouroboros.NewConnection(append(so.options(pair.B), ouroboros.WithBlockFetchConfig(sCfg))...)
			sRet = true
		}()
		go func() {
			cConn, cErr = ouroboros.NewConnection(append(co.options(pair.A), ouroboros.WithBlockFetchConfig(cCfg))...)
			cRet = true
		}()
		for i := 0; i < 600 && !(cRet && sRet); i++ {
			sleep(100 * time.Millisecond)
		}
		if !cRet || !sRet || cErr != nil || sErr != nil {
			rt.Hit("bf.setup-failed")
			return
		}
		cw, sw := watchConn(cConn), watchConn(sConn)
		rounds := 1 + pick("cfg", 3)
		expectCompletions := 0
		for r := 0; r < rounds; r++ {
			before := len(served)
			var err error
			callRet := false
			go func() {
				err = cConn.BlockFetch().Client.GetBlockRange(samplePoint(uint64(r)), samplePoint(uint64(r+5)))
				callRet = true
			}()
			for i := 0; i < 3000 && !callRet; i++ {
				sleep(200 * time.Millisecond)
			}
			if pair.A.Deadline+pair.B.Deadline > 0 || keepAliveTimedOut(cw, sw) {
				return
			}
			if !callRet {
				rt.Violate("C23/range-request-hangs", "range request %d (after %d earlier ones that were served completely) had not returned after 10 simulated minutes; client errors %v, server errors %v", r, r, cw.errs, sw.errs)
				return
			}
			nserved := len(served) - before
			if err != nil {
				if nserved > 0 {
					rt.Violate("C23/range-request-failed", "GetBlockRange failed although the server started a batch of %d blocks: %v (client errors %v, server errors %v)", nserved, err, cw.errs, sw.errs)
					return
				}
				rt.Hit("bf.no-blocks")
				continue
			}
			expectCompletions++
			if noBatchDone {
				// the last block of the batch having been delivered is the completion
				for i := 0; i < 3000 && len(delivered) < len(served) && len(cw.errs) == 0 && len(sw.errs) == 0; i++ {
					sleep(200 * time.Millisecond)
				}
				sleep(time.Second)
				completions = expectCompletions
			}
			// wait for the batch to complete
			for i := 0; i < 3000 && completions < expectCompletions && len(cw.errs) == 0 && len(sw.errs) == 0; i++ {
				sleep(200 * time.Millisecond)
			}
			if pair.A.Deadline+pair.B.Deadline > 0 || keepAliveTimedOut(cw, sw) {
				return
			}
			if completions < expectCompletions {
				rt.Violate("C23/range-never-completes", "range request %d: %d blocks served, %d delivered, completion callback not called within 10 simulated minutes (errors %v %v)", r, len(served), len(delivered), cw.errs, sw.errs)
				return
			}
			if pl != nil {
				// the pipeline applies behind the wire: give it time to catch up
				for i := 0; i < 600 && len(delivered) < len(served); i++ {
					sleep(200 * time.Millisecond)
				}
			}
			if len(delivered) != len(served) {
				rt.Violate("C23/range-block-count", "after completion of request %d: %d blocks served, %d delivered to the callback", r, len(served), len(delivered))
				return
			}
			rt.Hit("bf.range-complete")
		}
		for i, b := range served {
			want := fmt.Sprintf("%d/%x", b.Type, b.Hash[:6])
			if delivered[i] != want {
				rt.Violate("C23/range-order", "block #%d delivered to the callback is %s, the server served %s (%s)", i, delivered[i], want, b.Era)
				return
			}
			if useRaw && !bytes.Equal(deliveredRaw[i], b.Data) {
				rt.Violate("C23/range-bytes", "raw block #%d differs from what the server served", i)
				return
			}
		}
		cConn.Close()
		sConn.Close()
		if pl != nil {
			_ = pl.Stop()
		}
	}
}

func bfSingleSetup(s *rt.Sim, tier string) func() {
	schedCfg(s, true)
	s.Cfg.MaxSteps = 60000
	s.Cfg.MaxStall = 200 * time.Millisecond
	bfStallBudget(s)
	s.Cfg.Horizon = 6 * time.Hour
	return func() {
		pair := NewPair(drawNetCfg(false))
		blocks := fixBlocks()
		co := connOpts{ntn: true, magic: 42}
		peer := newRawPeer(pair.B)
		var conn *ouroboros.Connection
		var cErr error
		connRet := false
		go func() {
			conn, cErr = ouroboros.NewConnection(co.options(pair.A)...)
			connRet = true
		}()
		if rawAcceptHighest(peer, co.table().m, co.magic, false, nil) == 0 {
			return
		}
		for i := 0; i < 600 && !connRet; i++ {
			sleep(100 * time.Millisecond)
		}
		if !connRet || cErr != nil {
			rt.Hit("bf.setup-failed")
			return
		}
		peer.keepAlive(conn.Muxer(), true)
		watchErrs := watchConn(conn)
		want := blocks[pick("op", len(blocks))]
		shape := oneOf("op", "matching", "no-blocks", "empty-batch", "other-block", "several-blocks", "matching")
		// forks and slot battles (own stream of draws): the block the server holds for that slot
		// is not the one asked for
		reqPoint := want.Point
		flipped := false
		otherKind := rt.Choose("op.x", 4)
		if otherKind == 3 {
			h := append([]byte(nil), want.Hash...)
			h[rt.Choose("op.x", len(h))] ^= 1 << uint(rt.Choose("op.x", 8))
			reqPoint = pcommon.NewPoint(want.Slot, h)
			flipped = true
			rt.Hit("bfsingle.same-slot-other-hash-requested")
		}
		var got ledger.Block
		var gErr error
		ret := false
		go func() {
			got, gErr = conn.BlockFetch().Client.GetBlock(reqPoint)
			ret = true
			rt.Log("GetBlock returned err=%v", gErr)
		}()
		// the raw server waits for the request, then answers
		for i := 0; i < 600 && len(peer.stream(blockfetch.ProtocolId, false)) == 0; i++ {
			sleep(100 * time.Millisecond)
		}
		send := func(b []byte) { _ = peer.sendMsg(blockfetch.ProtocolId, true, b) }
		other := blocks[(pick("op", len(blocks)-1)+1+indexOfBlock(blocks, want))%len(blocks)]
		if otherKind == 2 {
			// another block of the same slot: the same real block signed with another protocol version
			for _, v := range protoVariantBlocks() {
				if v.Slot == want.Slot && v.Type == want.Type && !bytes.Equal(v.Hash, want.Hash) {
					other = v
					rt.Hit("bfsingle.same-slot-other-block-served")
					break
				}
			}
		}
		switch shape {
		case "matching":
			send(sampleBytes("blockfetch", 2, 0, 0))
			send(wrappedBlockMsg(want))
			send(sampleBytes("blockfetch", 5, 0, 0))
		case "no-blocks":
			send(sampleBytes("blockfetch", 3, 0, 0))
		case "empty-batch":
			send(sampleBytes("blockfetch", 2, 0, 0))
			send(sampleBytes("blockfetch", 5, 0, 0))
		case "other-block":
			send(sampleBytes("blockfetch", 2, 0, 0))
			send(wrappedBlockMsg(other))
			send(sampleBytes("blockfetch", 5, 0, 0))
		case "several-blocks":
			send(sampleBytes("blockfetch", 2, 0, 0))
			send(wrappedBlockMsg(want))
			for i := 0; i < 1+pick("op", 3); i++ {
				send(wrappedBlockMsg(other))
			}
			send(sampleBytes("blockfetch", 5, 0, 0))
		}
		for i := 0; i < 600 && !ret; i++ {
			sleep(time.Second)
		}
		rt.Hit("bfsingle." + shape)
		if pair.A.Deadline > 0 {
			return
		}
		desc := fmt.Sprintf("GetBlock(%s block, slot %d) answered with batch shape %q", want.Era, want.Slot, shape)
		if !ret {
			rt.Violate("C23/getblock-hangs/"+shape, "%s: the call had not returned 10 simulated minutes after the batch ended (connection still up)", desc)
			return
		}
		if flipped {
			desc += " (requested: the block's slot with a hash that differs from the block's in one bit)"
		}
		if gErr == nil {
			if got == nil || !bytes.Equal(got.Hash().Bytes(), reqPoint.Hash) {
				rt.Violate("C23/wrong-block-returned/"+shape, "%s: returned a block whose hash differs from the requested point's hash", desc)
				return
			}
			if shape != "matching" {
				rt.Violate("C23/succeeds-on-bad-batch/"+shape, "%s: the call succeeded", desc)
				return
			}
		} else if shape == "matching" && !flipped {
			rt.Violate("C23/matching-block-rejected", "%s: %v", desc, gErr)
			return
		}
		// a second single-block request on the same client (own stream of draws): whatever the
		// first batch was, the protocol is back in Idle and the next request gets its block
		if rt.Choose("op.x", 2) == 1 && !peer.eof && len(watchErrs.errs) == 0 && shape != "no-blocks" {
			want2 := blocks[pick("op", len(blocks))]
			var got2 ledger.Block
			var gErr2 error
			ret2 := false
			reqBytes := len(peer.stream(blockfetch.ProtocolId, false))
			go func() {
				got2, gErr2 = conn.BlockFetch().Client.GetBlock(want2.Point)
				ret2 = true
			}()
			for i := 0; i < 600 && len(peer.stream(blockfetch.ProtocolId, false)) == reqBytes && !ret2; i++ {
				sleep(100 * time.Millisecond)
			}
			if len(peer.stream(blockfetch.ProtocolId, false)) > reqBytes {
				send(sampleBytes("blockfetch", 2, 0, 0))
				send(wrappedBlockMsg(want2))
				send(sampleBytes("blockfetch", 5, 0, 0))
			}
			for i := 0; i < 600 && !ret2; i++ {
				sleep(time.Second)
			}
			rt.Hit("bfsingle.second-request")
			if pair.A.Deadline > 0 {
				return
			}
			if !ret2 {
				rt.Violate("C23/getblock-hangs/second-request-after-"+shape, "%s; a second GetBlock(%s block) on the same client, answered with exactly that block, had not returned after 10 simulated minutes (request written: %v)", desc, want2.Era, len(peer.stream(blockfetch.ProtocolId, false)) > reqBytes)
				return
			}
			if gErr2 != nil || got2 == nil || !bytes.Equal(got2.Hash().Bytes(), want2.Hash) {
				rt.Violate("C23/second-request-failed/after-"+shape, "%s; a second GetBlock(%s block) answered with exactly that block returned %v", desc, want2.Era, gErr2)
				return
			}
		}
		conn.Close()
		peer.close()
	}
}

func indexOfBlock(bs []fixBlock, b fixBlock) int {
	for i := range bs {
		if bs[i].Era == b.Era {
			return i
		}
	}
	return 0
}

// Scenario BF-MIXED (C23): one block-fetch client shared by 2-3 application
// tasks that issue single-block and range requests at the same time against a
// real server Connection serving from a model block store. Calls are serialised
// by the client, so the callback must see exactly the blocks served for range
// requests, in the order served, and every GetBlock must return its own block.
func init() {
	register(&Scenario{Name: "bf-mixed", Setup: bfMixedSetup})
}

func bfMixedSetup(s *rt.Sim, tier string) func() {
	schedCfg(s, true)
	s.Cfg.MaxSteps = 120000
	s.Cfg.MaxStall = 200 * time.Millisecond
	bfStallBudget(s)
	s.Cfg.Horizon = 6 * time.Hour
	return func() {
		ncfg := drawNetCfg(true)
		if ncfg.BufCap > 0 && ncfg.BufCap < 8192 {
			ncfg.BufCap = 8192
		}
		if ncfg.Latency > 20*time.Millisecond {
			ncfg.Latency = 20 * time.Millisecond
		}
		ncfg.Jitter = 0
		pair := NewPair(ncfg)
		blocks := fixBlocks()
		var servedRange []fixBlock // blocks served for range requests, in serving order
		var delivered []string
		completions := 0
		slow := chance("cfg", 1, 3)
		slowServer := chance("cfg", 1, 2)
		serverSide := func(ctx blockfetch.CallbackContext, start, end pcommon.Point) error {
			if slowServer && chance("op", 1, 2) {
				sleep(oneOf("op", time.Millisecond, 30*time.Millisecond, 400*time.Millisecond))
			}
			// a single-block request names a block of the store
			for _, b := range blocks {
				if start.Slot == end.Slot && bytes.Equal(start.Hash, b.Hash) {
					if err := ctx.Server.StartBatch(); err != nil {
						return err
					}
					if slowServer && chance("op", 1, 2) {
						sleep(oneOf("op", time.Millisecond, 30*time.Millisecond, 400*time.Millisecond))
					}
					if err := ctx.Server.Block(b.Type, b.Data); err != nil {
						return err
					}
					return ctx.Server.BatchDone()
				}
			}
			n := 1 + pick("op", 4)
			if err := ctx.Server.StartBatch(); err != nil {
				return err
			}
			queued := 0
			for i := 0; i < n; i++ {
				b := blocks[pick("op", len(blocks))]
				if queued+len(b.Data) > 2000000 {
					b = blocks[0] // stay below the server's own send-queue byte limit
				}
				queued += len(b.Data)
				servedRange = append(servedRange, b)
				if slowServer && chance("op", 1, 3) {
					sleep(oneOf("op", time.Millisecond, 30*time.Millisecond, 400*time.Millisecond))
				}
				if err := ctx.Server.Block(b.Type, b.Data); err != nil {
					return err
				}
			}
			return ctx.Server.BatchDone()
		}
		cCfg, _ := blockfetch.NewConfig(
			blockfetch.WithBlockFunc(func(ctx blockfetch.CallbackContext, t uint, b ledger.Block) error {
				delivered = append(delivered, fmt.Sprintf("%d/%x", t, b.Hash().Bytes()[:6]))
				if slow && chance("op", 1, 3) {
					sleep(oneOf("op", 10*time.Millisecond, time.Second))
				}
				return nil
			}),
			blockfetch.WithBatchDoneFunc(func(blockfetch.CallbackContext) error { completions++; return nil }),
		)
		sCfg, _ := blockfetch.NewConfig(blockfetch.WithRequestRangeFunc(serverSide))
		co := connOpts{ntn: true, magic: 42, keepAlive: true}
		so := connOpts{ntn: true, magic: 42, server: true}
		var cConn, sConn *ouroboros.Connection
		var cErr, sErr error
		cRet, sRet := false, false
		go func() {
			sConn, sErr = ouroboros.NewConnection(append(so.options(pair.B), ouroboros.WithBlockFetchConfig(sCfg))...)
			sRet = true
		}()
		go func() {
			cConn, cErr = ouroboros.NewConnection(append(co.options(pair.A), ouroboros.WithBlockFetchConfig(cCfg))...)
			cRet = true
		}()
		for i := 0; i < 600 && !(cRet && sRet); i++ {
			sleep(100 * time.Millisecond)
		}
		if !cRet || !sRet || cErr != nil || sErr != nil {
			rt.Hit("bf.setup-failed")
			return
		}
		cw, sw := watchConn(cConn), watchConn(sConn)
		type call struct {
			single   bool
			want     fixBlock
			got      ledger.Block
			err      error
			ret      bool
			inv, fin uint64
		}
		var calls []*call
		ntasks := 2 + pick("cfg", 2)
		fin := make(chan struct{}, 4)
		for task := 0; task < ntasks; task++ {
			task := task
			go func() {
				defer func() { fin <- struct{}{} }()
				for i := 0; i < 1+pick("op", 3); i++ {
					c := &call{single: chance("op", 1, 2)}
					calls = append(calls, c)
					if chance("op", 1, 3) {
						sleep(oneOf("op", time.Millisecond, 20*time.Millisecond, 300*time.Millisecond))
					}
					c.inv = rt.Stamp()
					if c.single {
						c.want = blocks[pick("op", len(blocks))]
						c.got, c.err = cConn.BlockFetch().Client.GetBlock(c.want.Point)
					} else {
						c.err = cConn.BlockFetch().Client.GetBlockRange(samplePoint(uint64(task*10+i)), samplePoint(uint64(task*10+i+5)))
					}
					c.fin = rt.Stamp()
					c.ret = true
				}
			}()
		}
		// every caller task finishes within 20 simulated minutes
		done := 0
		for i := 0; i < 6000 && done < ntasks; i++ {
			select {
			case <-fin:
				done++
			default:
				sleep(200 * time.Millisecond)
			}
		}
		if pair.A.Deadline+pair.B.Deadline > 0 || keepAliveTimedOut(cw, sw) {
			return
		}
		nSingle, nRange, rangeOK := 0, 0, 0
		for _, c := range calls {
			if c.single {
				nSingle++
			} else {
				nRange++
			}
		}
		if nSingle > 0 && nRange > 0 {
			rt.Hit("bfmixed.both-kinds")
		}
		desc := fmt.Sprintf("%d tasks sharing one client, %d GetBlock and %d GetBlockRange calls", ntasks, nSingle, nRange)
		for i, c := range calls {
			if !c.ret {
				kind := "GetBlockRange"
				if c.single {
					kind = "GetBlock"
				}
				rt.Violate("C23/getblock-hangs/mixed", "%s: call #%d (%s) had not returned after 20 simulated minutes with the connection up (client errors %v, server errors %v; %d blocks delivered to the callback, %d served for ranges)", desc, i, kind, cw.errs, sw.errs, len(delivered), len(servedRange))
				return
			}
		}
		if len(cw.errs) > 0 || len(sw.errs) > 0 {
			rt.Violate("C23/error-in-conforming-use", "%s: connection errors with an honest server: client %v server %v", desc, cw.errs, sw.errs)
			return
		}
		for i, c := range calls {
			if c.single {
				if c.err != nil {
					rt.Violate("C23/matching-block-rejected", "%s: call #%d GetBlock(%s block) failed although the server served exactly that block: %v", desc, i, c.want.Era, c.err)
					return
				}
				if c.got == nil || !bytes.Equal(c.got.Hash().Bytes(), c.want.Hash) {
					rt.Violate("C23/wrong-block-returned/mixed", "%s: call #%d GetBlock(%s block) returned a block with another hash", desc, i, c.want.Era)
					return
				}
			} else {
				if c.err != nil {
					rt.Violate("C23/range-request-failed", "%s: call #%d GetBlockRange failed although the server started a batch: %v", desc, i, c.err)
					return
				}
				rangeOK++
			}
		}
		for i := 0; i < 3000 && completions < rangeOK; i++ {
			sleep(200 * time.Millisecond)
		}
		if pair.A.Deadline+pair.B.Deadline > 0 || keepAliveTimedOut(cw, sw) {
			return
		}
		if completions != rangeOK {
			rt.Violate("C23/range-never-completes", "%s: %d range requests accepted, completion callback called %d times (errors %v %v)", desc, rangeOK, completions, cw.errs, sw.errs)
			return
		}
		if len(delivered) != len(servedRange) {
			rt.Violate("C23/range-block-count", "%s: %d blocks served for range requests, %d delivered to the block callback", desc, len(servedRange), len(delivered))
			return
		}
		for i, b := range servedRange {
			if want := fmt.Sprintf("%d/%x", b.Type, b.Hash[:6]); delivered[i] != want {
				rt.Violate("C23/range-order", "%s: block #%d delivered to the callback is %s, the server served %s", desc, i, delivered[i], want)
				return
			}
		}
		rt.Hit("bfmixed.checked")
		cConn.Close()
		sConn.Close()
	}
}
