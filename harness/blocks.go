//verif:noinstr

package sim

import (
	"encoding/hex"
	"sync"

	"github.com/blinklabs-io/gouroboros/ledger"
	lcommon "github.com/blinklabs-io/gouroboros/ledger/common"
	pcommon "github.com/blinklabs-io/gouroboros/protocol/common"
)

// Real blocks of every era from the repository's fixtures.

type fixBlock struct {
	Era   string
	Byron bool
	Type  uint
	Data  []byte
	Hash  []byte
	Slot  uint64
	Point pcommon.Point
}

var fixBlocksOnce sync.Once
var fixBlocksList []fixBlock

func fixBlocks() []fixBlock {
	fixBlocksOnce.Do(func() {
		for _, f := range []struct {
			era  string
			typ  uint
			file string
		}{
			{"byron", ledger.BlockTypeByronMain, "internal/testdata/byron_block.hex"},
			{"shelley", ledger.BlockTypeShelley, "internal/testdata/shelley_block.hex"},
			{"allegra", ledger.BlockTypeAllegra, "internal/testdata/allegra_block.hex"},
			{"mary", ledger.BlockTypeMary, "internal/testdata/mary_block.hex"},
			{"alonzo", ledger.BlockTypeAlonzo, "internal/testdata/alonzo_block.hex"},
			{"babbage", ledger.BlockTypeBabbage, "internal/testdata/babbage_block.hex"},
			{"conway", ledger.BlockTypeConway, "internal/testdata/conway_block.hex"},
			// appended later: the first seven keep their positions
			{"dijkstra", ledger.BlockTypeDijkstra, "ledger/dijkstra/testdata/musashi_dijkstra_block.hex"},
			{"shelley-testnet", ledger.BlockTypeShelley, "protocol/chainsync/testdata/shelley_block_testnet_02b1c561715da9e540411123a6135ee319b02f60b9a11a603d3305556c04329f.hex"},
			{"byron-ebb", ledger.BlockTypeByronEbb, "protocol/chainsync/testdata/byron_ebb_testnet_8f8602837f7c6f8b8867dd1cbc1842cf51a27eaed2c70ef48325d00f8efb320f.hex"},
			{"byron-testnet", ledger.BlockTypeByronMain, "protocol/chainsync/testdata/byron_main_block_testnet_f38aa5e8cf0b47d1ffa8b2385aa2d43882282db2ffd5ac0e3dadec1a6f2ecf08.hex"},
		} {
			data := fixtureHex(f.file)
			b, err := ledger.NewBlockFromCbor(f.typ, data, lcommon.VerifyConfig{SkipBodyHashValidation: true})
			if err != nil {
				panic("harness: fixture block " + f.file + " does not decode: " + err.Error())
			}
			h := b.Hash().Bytes()
			fixBlocksList = append(fixBlocksList, fixBlock{Era: f.era, Byron: f.typ == ledger.BlockTypeByronMain || f.typ == ledger.BlockTypeByronEbb, Type: f.typ, Data: data, Hash: h, Slot: b.SlotNumber(), Point: pcommon.NewPoint(b.SlotNumber(), h)})
		}
	})
	return fixBlocksList
}

// validConwayBlock is a Conway block that passes ledger.VerifyBlock: the real
// mainnet header of block 10882991 (the repository's own fixture in
// ledger/verify_block_test.go, valid under validConwayEta0 with 129600 slots
// per KES period) with an empty body: [header, [], [], {}, []].
const validConwayEta0 = "4ef95a10f639d0cf16bb963c3a580d4bf2a95b6ae7848702665884843e3c661d"

const validConwayHeaderHex = "828a1a00a60faf1a0817580c58204eac1e7264c0e80436b04687e75d46d6a0d6b2338c2abb73a14fafbd689f69b2582012209e0b93f0128f670c9a02781c5466c4c4be003da3a51344b6a94f709ce51f58209c1a5fc5dec0a4b822d5a3b254ce9b168299479127aadcf97506ef257517fff682584023c2d70c24c44041644f5152f7e8a1bb580e516eb8e73c7df287116adb5f009c0c001feccfeebdf34c2275d1fce859c6c46182631b6306d5fd2724ac7ab1c6be58500dbe31ef7c00c34b6522e983d223e05075359cb170668d960b8cebfced178287ee6ca5cfc6e8e60aec97fd197aebfefc24aae695680631d575c6dacdfd9efc5687e46eb2a5c04a755c7f260af9ef830819c5ea5820d2b74b6333637801f2e9c7265792d5b8fc1647f9056d67c769dbac27f25f2fd08458200946347d22a3b6da29d79102424973c932b898808ff2436fa138df102484230a0a1904165840c75619c3ebad0758349eb1dedc154a8cd280d8189d6da973b4a147b0cdb0f60442d493feeba64167a05b5fc40bc695192bf1c08afad3c07ebd33cb5925f378018209015901c00a8442332bd3f33a4d78fe2736a75110b528a1e7501bc7887910d1475fc0e425f49a84f94e98f87047916cf622f3db1f61b60c5f06709769f98c4cc67de8f50c320c6772b647ac9916765b6985d4eafccb54e71064d01df41f8d0638ed5cd62b7b6e49ba15dd87cc687ab87d3fb22490d355e8fa9c5f7c24ed88b800fcc4cb1f1b54e65b5ba82c442f4643caadc86583072b8b6956f4f9a4530c29873f7231605efd7a7f961a863530512ef86b50f9b1004748c31fa07978f2ece7d8e76ffde67d713015824b28e19f05f0383c2def3cdeb67247f33f5eae329c38a375b2eb06a586dcc2e102a776a6deaad1741f2a7f5aa604074698e876afab4455278fd84a1db5768078e2848cc85e3c8a0b48630a2622832ecd2dbb3c505df2a70b93b49ce99616f601e5e2004a8ce8926319c23f2a26ac8550cb1c05c9d2d25fc5fcd122fc35b057a71d6e961250c99b19a7bfd9acdc60a8151d6c81ef2d7d69a62fd0f17d184dd753cce9a2e9c32b53baf317e31c6c5e3cf8ea8b203b413ae8b0253db53d0cbe19b0f0547a0e67d3591d1cade6ceb4a47779ba4a09e7526280acb62200f42c98f6185ea9da3daf47aa3d10ffe5307331fa3430af6c6361154943c39375"

var validConwayOnce sync.Once
var validConway fixBlock

func validConwayBlock() fixBlock {
	validConwayOnce.Do(func() {
		hdr, err := hex.DecodeString(validConwayHeaderHex)
		if err != nil {
			panic(err)
		}
		data := append(append([]byte{0x85}, hdr...), 0x80, 0x80, 0xa0, 0x80)
		b, err := ledger.NewBlockFromCbor(ledger.BlockTypeConway, data, lcommon.VerifyConfig{SkipBodyHashValidation: true})
		if err != nil {
			panic("harness: valid conway block does not decode: " + err.Error())
		}
		h := b.Hash().Bytes()
		validConway = fixBlock{Era: "conway-valid", Type: ledger.BlockTypeConway, Data: data, Hash: h, Slot: b.SlotNumber(), Point: pcommon.NewPoint(b.SlotNumber(), h)}
	})
	return validConway
}

// protoVariantBlocks: the real Shelley-to-Conway fixture blocks with the protocol
// major version in their header patched to values 1..12 (one byte; no length
// changes). A block that still belongs to era X while its issuer already
// signals the next era's protocol version is ordinary on a live chain shortly
// before a hard fork; the block's type is decided by the era it was made in,
// not by that number. Variants the ledger decoder refuses for the block's own
// type are left out.
var protoVariantsOnce sync.Once
var protoVariantsList []fixBlock

func cborHead(b []byte) (major byte, arg uint64, n int, ok bool) {
	if len(b) == 0 {
		return 0, 0, 0, false
	}
	major, low := b[0]>>5, b[0]&0x1f
	switch {
	case low < 24:
		return major, uint64(low), 1, true
	case low == 24 && len(b) >= 2:
		return major, uint64(b[1]), 2, true
	case low == 25 && len(b) >= 3:
		return major, uint64(b[1])<<8 | uint64(b[2]), 3, true
	case low == 26 && len(b) >= 5:
		return major, uint64(b[1])<<24 | uint64(b[2])<<16 | uint64(b[3])<<8 | uint64(b[4]), 5, true
	}
	return 0, 0, 0, false
}

// protoMajorOffset returns the offset of the one-byte protocol major version in
// a Shelley-family (15-field header body) or Praos (10-field) block, or -1.
func protoMajorOffset(b []byte) int {
	off := 0
	for i := 0; i < 2; i++ { // block array, header array
		m, _, n, ok := cborHead(b[off:])
		if !ok || m != 4 {
			return -1
		}
		off += n
	}
	m, fields, n, ok := cborHead(b[off:])
	if !ok || m != 4 {
		return -1
	}
	off += n
	skip := 0
	switch fields {
	case 15:
		skip = 13
	case 10:
		skip = 9
	default:
		return -1
	}
	for i := 0; i < skip; i++ {
		l, err := cborItemLen(b[off:])
		if err != nil {
			return -1
		}
		off += l
	}
	if fields == 10 {
		if off >= len(b) || b[off] != 0x82 {
			return -1
		}
		off++
	}
	if off >= len(b) || b[off] >= 24 {
		return -1
	}
	return off
}

func protoVariantBlocks() []fixBlock {
	protoVariantsOnce.Do(func() {
		for _, fb := range fixBlocks()[:7] {
			if fb.Byron {
				continue
			}
			off := protoMajorOffset(fb.Data)
			if off < 0 {
				panic("harness: cannot locate the protocol version in fixture " + fb.Era)
			}
			for major := byte(1); major <= 12; major++ {
				if fb.Data[off] == major {
					continue
				}
				data := append([]byte(nil), fb.Data...)
				data[off] = major
				b, err := ledger.NewBlockFromCbor(fb.Type, data, lcommon.VerifyConfig{SkipBodyHashValidation: true})
				if err != nil || uint(b.Type()) != fb.Type {
					continue
				}
				h := b.Hash().Bytes()
				protoVariantsList = append(protoVariantsList, fixBlock{Era: fb.Era + "-other-protocol-major", Type: fb.Type, Data: data, Hash: h, Slot: b.SlotNumber(), Point: pcommon.NewPoint(b.SlotNumber(), h)})
			}
		}
		if len(protoVariantsList) == 0 {
			panic("harness: no protocol-version variants could be built")
		}
	})
	return protoVariantsList
}
