#!/bin/bash
# mutcheck.sh <patch.diff> <property> [check args]: apply a seeded change to /repo, run ./check, revert.
set -u
PATCH=$1; PROP=$2; shift 2
cd /verif
[ -z "$(git -C /repo status --short)" ] || { echo "/repo not clean"; exit 2; }
git -C /repo apply $PATCH || exit 2
./check $PROP "$@" 2>&1 | grep -v "^KNOWN-FINDING\|^instr:\|^check: built" | cut -c1-400 | tail -8
git -C /repo checkout -- . ; git -C /repo status --short | head -3
