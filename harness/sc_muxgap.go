package sim

import (
	"bytes"
	"encoding/binary"
	"fmt"
	"time"

	"github.com/blinklabs-io/gouroboros/muxer"
	rt "github.com/blinklabs-io/gouroboros/verifsimrt"
)

// Scenario MUX-GAP (C09): a real muxer fed by a raw peer that writes valid
// frames but goes silent for a while in the middle of one of them (F9 inside a
// frame: after k bytes of the header, or inside the payload). Short gaps are
// plain fragmentation in time: every frame must arrive intact. A gap beyond the
// muxer's per-segment read deadline may end the connection; what it must never
// do is make the muxer lose its place in the byte stream. To make a lost place
// visible, the frame with the gap is built the way an attacker would build it
// ("frame smuggling"): if a reader resumes after dropping the k header bytes it
// already consumed, the following bytes parse as a well-formed frame for
// another registered receiver, carrying a payload nobody ever sent to it.
//
// Oracle: every segment a registration receives is, byte for byte, the next
// payload the peer sent to exactly that (protocol number, direction); with a
// gap below the read deadline all frames arrive and no error is reported.

func init() {
	register(&Scenario{Name: "mux-gap", Setup: muxGapSetup})
}

func muxGapSetup(s *rt.Sim, tier string) func() {
	schedCfg(s, true)
	s.Cfg.MaxSteps = 30000
	s.Cfg.MaxStall = 2 * time.Second
	s.Cfg.Horizon = 3 * time.Hour
	return func() {
		cfg := drawNetCfg(false)
		pair := NewPair(cfg)
		m := muxer.New(pair.A)
		type reg struct {
			proto uint16
			resp  bool // direction bit of frames addressed to this receiver
			ch    chan *muxer.Segment
			sent  [][]byte // payloads the peer sent to it, in order
			got   [][]byte
		}
		var regs []*reg
		for _, p := range []uint16{2, 3} {
			for _, role := range []muxer.ProtocolRole{muxer.ProtocolRoleInitiator, muxer.ProtocolRoleResponder} {
				if chance("cfg", 3, 4) || len(regs) == 0 && p == 3 && role == muxer.ProtocolRoleResponder {
					_, ch, _ := m.RegisterProtocol(p, role)
					regs = append(regs, &reg{proto: p, resp: role == muxer.ProtocolRoleInitiator, ch: ch})
				}
			}
		}
		m.SetDiffusionMode(muxer.DiffusionModeInitiatorAndResponder)
		var errs []error
		go func() {
			for e := range m.ErrorChan() {
				errs = append(errs, e)
				rt.Log("muxer error: %v", e)
			}
		}()
		for _, r := range regs {
			r := r
			go func() {
				for seg := range r.ch {
					r.got = append(r.got, append([]byte(nil), seg.Payload...))
				}
			}()
		}
		m.Start()
		seq := uint16(0)
		sendTo := func(r *reg, n int) []byte {
			seq++
			p := muxPayload(7, uint8(r.proto), seq, n)
			r.sent = append(r.sent, p)
			return encodeFrame(r.proto, r.resp, p)
		}
		// valid traffic before
		for i := pick("op", 4); i > 0; i-- {
			_, _ = pair.B.Write(sendTo(regs[pick("op", len(regs))], muxSizes[pick("op", len(muxSizes))]))
		}
		// the frame with the gap
		carrier := regs[pick("op", len(regs))]
		gap := oneOf("op", 30*time.Second, 90*time.Second, 130*time.Second, 150*time.Second, 10*time.Minute)
		var frame []byte
		cut := 0
		desc := ""
		if chance("op", 2, 3) {
			// gap after k header bytes, smuggling construction where one exists
			k := 1 + pick("op", 7)
			target := regs[pick("op", len(regs))]
			idT := target.proto
			if target.resp {
				idT |= 0x8000
			}
			body := muxPayload(66, 66, 6666, 300) // never sent to anybody as a frame
			for _, l := range []int{1, 125, 253, 60, 200, 32765, 32766, 32767, 32768} {
				if l > len(body) {
					body = muxPayload(66, 66, 6666, l)
				}
				p := make([]byte, k+l)
				copy(p[k:], body[:l])
				h := encodeFrame(carrier.proto, carrier.resp, p)[:8]
				// the header a reader would see after losing the first k bytes: h[k:8] + p[0:k]
				var g [8]byte
				ok := true
				for i := 0; i < 8; i++ {
					if k+i < 8 {
						g[i] = h[k+i]
					} else {
						j := k + i - 8
						switch i {
						case 4:
							p[j] = byte(idT >> 8)
						case 5:
							p[j] = byte(idT)
						case 6:
							p[j] = byte(l >> 8)
						case 7:
							p[j] = byte(l)
						default:
							p[j] = 0x11
						}
						g[i] = p[j]
					}
				}
				if binary.BigEndian.Uint16(g[4:]) != idT || int(binary.BigEndian.Uint16(g[6:])) != l {
					ok = false
				}
				if ok {
					frame = encodeFrame(carrier.proto, carrier.resp, p)
					carrier.sent = append(carrier.sent, p)
					desc = fmt.Sprintf("gap of %v after %d header bytes of a %d-byte frame for protocol %d (resp=%v) built to smuggle %d bytes to protocol %d (resp=%v)", gap, k, len(p), carrier.proto, carrier.resp, l, target.proto, target.resp)
					rt.Hit("muxgap.smuggling-frame")
					break
				}
			}
			if frame == nil {
				frame = sendTo(carrier, muxSizes[pick("op", len(muxSizes))])
				desc = fmt.Sprintf("gap of %v after %d header bytes of a frame for protocol %d (resp=%v)", gap, k, carrier.proto, carrier.resp)
			}
			cut = k
		} else {
			n := muxSizes[pick("op", len(muxSizes))]
			frame = sendTo(carrier, n)
			cut = 8 + pick("op", n)
			desc = fmt.Sprintf("gap of %v after %d payload bytes of a frame for protocol %d (resp=%v)", gap, cut-8, carrier.proto, carrier.resp)
		}
		_, _ = pair.B.Write(frame[:cut])
		rt.Fault("F9.silence-inside-a-frame")
		sleep(gap)
		_, _ = pair.B.Write(frame[cut:])
		// valid traffic after
		for i := 1 + pick("op", 3); i > 0; i-- {
			_, _ = pair.B.Write(sendTo(regs[pick("op", len(regs))], muxSizes[pick("op", len(muxSizes))]))
		}
		// judge before the muxer's read deadline ends the then idle connection (120 s without
		// a byte is a legitimate reason for it to give up)
		sleep(60 * time.Second)
		short := gap <= 90*time.Second
		if short {
			rt.Hit("muxgap.short-gap")
		} else {
			rt.Hit("muxgap.gap-beyond-read-deadline")
		}
		for _, r := range regs {
			for i, g := range r.got {
				if i >= len(r.sent) || !bytes.Equal(g, r.sent[i]) {
					what := "a payload that was never sent to it as a frame"
					if len(g) >= 4 && g[0] == 66 && g[1] == 66 {
						what = "the smuggled bytes from inside another frame's payload"
					}
					rt.Violate("C09/stream-position-lost", "%s: receiver (protocol %d, resp=%v) got segment #%d of %d bytes: %s (muxer errors %v)", desc, r.proto, r.resp, i, len(g), what, errs)
					m.Stop()
					return
				}
			}
			if short && len(r.got) != len(r.sent) {
				rt.Violate("C09/valid-stream-broken", "%s: receiver (protocol %d, resp=%v) got %d of %d segments although the gap is below the read deadline (muxer errors %v)", desc, r.proto, r.resp, len(r.got), len(r.sent), errs)
				m.Stop()
				return
			}
		}
		if short && len(errs) > 0 {
			rt.Violate("C09/valid-stream-broken", "%s: muxer reported %v although the gap is below the read deadline", desc, errs)
		}
		m.Stop()
		pair.B.Close()
	}
}
