package sim

import (
	"crypto/sha256"
	"encoding/hex"
	"fmt"
	"io"
	"log/slog"
	"time"

	"github.com/anishathalye/porcupine"
	pcommon "github.com/blinklabs-io/gouroboros/protocol/common"
	rt "github.com/blinklabs-io/gouroboros/verifsimrt"
	"golang.org/x/crypto/blake2b"
)

// Scenario AUTH (C46): one shared MessageAuthenticator called from 2-6 tasks
// (VerifyMessage with genuinely signed and single-field-corrupted messages,
// RegisterSPOPool, UnregisterSPOPool, RemoveKESOpCertCacheEntry); the recorded
// invoke/return history is checked for linearizability against a sequential
// model with porcupine.

func init() {
	register(&Scenario{Name: "auth", Setup: authSetup})
}

type authIn struct {
	Op      string // verify, register, unregister, forget
	Pool    int
	Issue   uint64
	Corrupt string // "", id, cold, kes, body, cert-issue, cert-period, cert-keskey, coldkey
}

type authState struct {
	Reg  [3]bool
	Last [3]int64 // -1 = none
}

var authModel = porcupine.Model{
	Init: func() interface{} { return authState{Last: [3]int64{-1, -1, -1}} },
	Step: func(state, input, output interface{}) (bool, interface{}) {
		st := state.(authState)
		in := input.(authIn)
		switch in.Op {
		case "register":
			st.Reg[in.Pool] = true
			return true, st
		case "unregister":
			st.Reg[in.Pool] = false
			return true, st
		case "forget":
			st.Last[in.Pool] = -1
			return true, st
		}
		accepted := output.(bool)
		want := in.Corrupt == "" && st.Reg[in.Pool] && (st.Last[in.Pool] < 0 || int64(in.Issue) >= st.Last[in.Pool])
		if want {
			st.Last[in.Pool] = int64(in.Issue)
		}
		return accepted == want, st
	},
	Equal: func(a, b interface{}) bool { return a.(authState) == b.(authState) },
	DescribeOperation: func(input, output interface{}) string {
		return fmt.Sprintf("%+v -> %v", input, output)
	},
}

func poolIdOf(coldPk []byte) string {
	h := blake2b.Sum256(coldPk)
	return hex.EncodeToString(h[:])
}

func authSetup(s *rt.Sim, tier string) func() {
	schedCfg(s, true)
	s.Cfg.MaxSteps = 20000
	s.Cfg.MaxStall = time.Second
	s.Cfg.Horizon = time.Hour
	var ops []porcupine.Operation
	verifierMode := s.Tape.Choose("cfg", 6) // 0..3 real verifier, 4 none, 5 none + insecure
	s.PostCheck = func() (string, string) {
		if verifierMode >= 4 {
			return "", ""
		}
		res := porcupine.CheckOperations(authModel, ops)
		if !res {
			desc := ""
			for _, o := range ops {
				desc += fmt.Sprintf("[c%d %d-%d %+v->%v] ", o.ClientId, o.Call, o.Return, o.Input, o.Output)
			}
			return "C46/history-not-linearizable", "the recorded VerifyMessage/Register/Unregister history has no sequential explanation under the authentication model: " + desc
		}
		return "", ""
	}
	return func() {
		pools := getAuthPools()
		auth := pcommon.NewMessageAuthenticator(slog.New(slog.NewTextHandler(io.Discard, nil)))
		switch {
		case verifierMode <= 3:
			auth.SetKESVerifier(kesVerifierForTests)
		case verifierMode == 5:
			auth.SetAllowInsecureKES(true)
		}
		// knob (own stream): in the modes "without a verifier" the verifier was installed once
		// and has been cleared again (SetKESVerifier(nil)); the authenticator is then without a
		// KES verifier just as if none had ever been set
		if verifierMode >= 4 && s.Tape.Choose("cfg.x", 2) == 1 {
			auth.SetKESVerifier(kesVerifierForTests)
			auth.SetKESVerifier(nil)
			rt.Hit("auth.verifier-cleared")
		}
		ntasks := 2 + pick("cfg", 5)
		perTask := 1 + pick("cfg", 6)
		if ntasks*perTask > 36 {
			perTask = 36 / ntasks
		}
		fin := make(chan struct{}, ntasks)
		accepted := 0
		// knob (own stream): every task keeps one message variable and overwrites it for each
		// call, like a receive loop that decodes into one value; what the authenticator remembers
		// about an accepted message must not change when the caller's variable does
		reuse := chance("cfg.y", 1, 2)
		if reuse {
			rt.Hit("auth.reused-message-variable")
		}
		for task := 0; task < ntasks; task++ {
			task := task
			go func() {
				defer func() { fin <- struct{}{} }()
				reuseBuf := authMessage(0, 0, 0)
				for i := 0; i < perTask; i++ {
					in := authIn{Pool: pick("op", 3)}
					switch k := pick("op", 10); {
					case k == 0:
						in.Op = "unregister"
					case k <= 2:
						in.Op = "register"
					case k == 3:
						in.Op = "forget"
					default:
						in.Op = "verify"
						in.Issue = uint64(pick("op", 4))
						in.Corrupt = oneOf("op", "", "", "", "", "", "id", "cold", "kes", "body", "cert-issue", "cert-period", "cert-keskey", "coldkey")
					}
					call := int64(rt.Stamp())
					var out interface{}
					pid := poolIdOf(pools[in.Pool].coldPk)
					switch in.Op {
					case "register":
						auth.RegisterSPOPool(pid)
					case "unregister":
						auth.UnregisterSPOPool(pid)
					case "forget":
						auth.RemoveKESOpCertCacheEntry(pid)
					default:
						m := authMessage(in.Pool, in.Issue, pick("op", 3))
						switch in.Corrupt {
						case "id":
							m.MessageID[3] ^= 0x40
							m.Payload.MessageID = nil
						case "cold":
							m.OperationalCertificate.ColdSignature[10] ^= 1
						case "kes":
							m.KESSignature[100] ^= 1
						case "body":
							m.Payload.MessageBody = append(m.Payload.MessageBody, 'x')
						case "cert-issue":
							// certificate body altered, cold signature kept
							m.OperationalCertificate.IssueNumber += 1 + uint64(pick("op", 3))
						case "cert-period":
							m.OperationalCertificate.KESPeriod++
						case "cert-keskey":
							// another pool's KES key signs the payload; the cold signature is over the genuine key
							m = authMessageForeignKes(in.Pool, in.Issue, pick("op", 3), (in.Pool+1+pick("op", 2))%3)
						case "coldkey":
							m.ColdVerificationKey = append([]byte(nil), pools[(in.Pool+1)%3].coldPk...)
						}
						mp := &m
						if reuse {
							reuseBuf = m
							mp = &reuseBuf
						}
						err := auth.VerifyMessage(mp)
						out = err == nil
						if err == nil {
							accepted++
						}
						if verifierMode == 4 && err == nil {
							rt.Violate("C46/accepted-without-verifier", "no KES verifier and insecure mode off, yet %+v was accepted", in)
						}
						if verifierMode == 5 && err == nil && (in.Corrupt != "" && in.Corrupt != "kes") {
							rt.Violate("C46/insecure-mode-skips-other-checks", "insecure KES mode accepted a message with corrupt %s", in.Corrupt)
						}
					}
					ret := int64(rt.Stamp())
					ops = append(ops, porcupine.Operation{ClientId: task, Input: in, Call: call, Output: out, Return: ret})
					if chance("op", 1, 5) {
						sleep(time.Millisecond)
					}
				}
			}()
		}
		for i := 0; i < ntasks; i++ {
			<-fin
		}
		if accepted > 0 {
			rt.Hit("auth.message-accepted")
		}
		rt.Hit(fmt.Sprintf("auth.verifier-mode-%d", min(verifierMode, 4)))
		h := sha256.Sum256([]byte(fmt.Sprint(len(ops))))
		_ = h
	}
}
