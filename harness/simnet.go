package sim

import (
	"errors"
	"io"
	"net"
	"os"
	"syscall"
	"time"

	rt "github.com/blinklabs-io/gouroboros/verifsimrt"
)

// simnet: an in-memory, fault-injecting net.Conn pair. Only one task runs at a
// time under the simulator, so the shared state below needs no locks; blocking
// goes through channels and timers, which the instrumenter turns into
// scheduling points.

// NetCfg is the per-run transport configuration (swarm parameters).
type NetCfg struct {
	FragMode int           // 0 whole reads, 1 random prefix, 2 mostly single bytes, 3 tiny (1..9 bytes, cuts headers)
	Latency  time.Duration // fixed one-way latency
	Jitter   time.Duration // additional random latency (monotone per direction)
	BufCap   int           // socket buffer per direction, 0 = unbounded
}

type chunk struct {
	data    []byte
	readyAt time.Duration
}

type wireMark struct {
	Off int
	Seq uint64
}

// half is one direction of the connection.
type half struct {
	name     string
	cfg      *NetCfg
	chunks   []chunk
	size     int
	wClosed  bool // writer side finished: reader sees EOF (or reset) after draining
	reset    bool
	rClosed  bool // reader side gone: writes fail
	rWaiting bool
	wWaiting bool
	notifyR  chan struct{}
	notifyW  chan struct{}
	written  int64
	cutAt    int64 // F4: abrupt close of the whole connection once written reaches cutAt (<0: none)
	wErrAt   int64 // F6: Write fails (and the connection is reset) once written reaches wErrAt
	readErr  error // F7: next Read returns this error
	lastAt   time.Duration
	Log      []byte // every byte accepted in this direction (the wire)
	Marks    []wireMark
	pair     *Pair
	onBlock  func() // probe: writer blocked on a full buffer
}

// Pair is a connected pair of endpoints A and B.
type Pair struct {
	A, B   *Conn
	AB, BA *half
}

// Conn implements net.Conn.
type Conn struct {
	name     string
	r, w     *half
	closed   bool
	rdl      time.Time
	rdlSet   bool
	ReadsN   int
	BytesIn  int64
	Deadline int // number of deadline expiries
	onRead   func()
}

type simAddr string

func (a simAddr) Network() string { return "sim" }
func (a simAddr) String() string  { return string(a) }

// NewPair creates a connected pair.
func NewPair(cfg *NetCfg) *Pair {
	mk := func(n string) *half {
		return &half{name: n, cfg: cfg, notifyR: make(chan struct{}, 1), notifyW: make(chan struct{}, 1), cutAt: -1, wErrAt: -1}
	}
	p := &Pair{AB: mk("A>B"), BA: mk("B>A")}
	p.AB.pair, p.BA.pair = p, p
	p.A = &Conn{name: "A", r: p.BA, w: p.AB}
	p.B = &Conn{name: "B", r: p.AB, w: p.BA}
	return p
}

// drawNetCfg draws a transport configuration from the tape.
func drawNetCfg(allowBuf bool) *NetCfg {
	c := &NetCfg{}
	c.FragMode = weighted("cfg", 3, 3, 1, 2)
	c.Latency = oneOf("cfg", 0, time.Millisecond, 20*time.Millisecond, 300*time.Millisecond)
	c.Jitter = oneOf("cfg", 0, 0, 5*time.Millisecond, 200*time.Millisecond)
	if allowBuf {
		c.BufCap = oneOf("cfg", 0, 0, 65536, 8192, 1024)
	}
	return c
}

func poke(ch chan struct{}) {
	select {
	case ch <- struct{}{}:
	default:
	}
}

func (h *half) wakeReader() {
	if h.rWaiting {
		poke(h.notifyR)
	}
}

func (h *half) wakeWriter() {
	if h.wWaiting {
		poke(h.notifyW)
	}
}

// drop closes the whole connection abruptly (both directions).
func (p *Pair) drop(reset bool) {
	for _, h := range []*half{p.AB, p.BA} {
		h.wClosed = true
		h.rClosed = true
		if reset {
			h.reset = true
		}
		h.wakeReader()
		h.wakeWriter()
	}
}

// CutAfter arms fault F4: after k more bytes in direction h the connection drops.
func (h *half) CutAfter(k int64) { h.cutAt = h.written + k }

var errReset = &net.OpError{Op: "read", Net: "sim", Err: syscall.ECONNRESET}
var errPipe = &net.OpError{Op: "write", Net: "sim", Err: syscall.EPIPE}
var errClosedConn = &net.OpError{Op: "read", Net: "sim", Err: net.ErrClosed}

type timeoutErr struct{}

func (timeoutErr) Error() string   { return "i/o timeout" }
func (timeoutErr) Timeout() bool   { return true }
func (timeoutErr) Temporary() bool { return true }
func (timeoutErr) Unwrap() error   { return os.ErrDeadlineExceeded }

func (c *Conn) Write(b []byte) (int, error) {
	h := c.w
	total := 0
	for len(b) > 0 {
		if c.closed {
			return total, &net.OpError{Op: "write", Net: "sim", Err: net.ErrClosed}
		}
		if h.rClosed || h.wClosed {
			return total, errPipe
		}
		room := len(b)
		if h.cfg.BufCap > 0 {
			room = h.cfg.BufCap - h.size
			if room <= 0 {
				if h.onBlock != nil {
					h.onBlock()
				}
				rt.Hit("net.writer-blocked")
				h.wWaiting = true
				<-h.notifyW
				h.wWaiting = false
				continue
			}
			if room > len(b) {
				room = len(b)
			}
		}
		n := room
		dropNow := false
		if h.cutAt >= 0 && h.written+int64(n) >= h.cutAt {
			n = int(h.cutAt - h.written)
			dropNow = true
		}
		if h.wErrAt >= 0 && h.written+int64(n) >= h.wErrAt {
			n = int(h.wErrAt - h.written)
			h.wErrAt = -1
			h.accept(b[:n])
			rt.Fault("F6.write-error")
			h.pair.drop(true)
			return total + n, errPipe
		}
		h.accept(b[:n])
		total += n
		b = b[n:]
		if dropNow {
			h.cutAt = -1
			rt.Fault("F4.abrupt-close")
			rt.Log("net %s: abrupt close after %d bytes", h.name, h.written)
			h.pair.drop(false)
			if len(b) > 0 {
				return total, errPipe
			}
			return total, nil
		}
	}
	return total, nil
}

func (h *half) accept(b []byte) {
	if len(b) == 0 {
		return
	}
	at := rt.Now() + h.cfg.Latency
	if h.cfg.Jitter > 0 {
		at += time.Duration(pick("net.jit", int(h.cfg.Jitter/time.Microsecond)+1)) * time.Microsecond
	}
	if at < h.lastAt {
		at = h.lastAt // a byte stream never reorders
	}
	h.lastAt = at
	cp := append([]byte(nil), b...)
	h.chunks = append(h.chunks, chunk{cp, at})
	h.size += len(cp)
	h.Marks = append(h.Marks, wireMark{len(h.Log), rt.Stamp()})
	h.Log = append(h.Log, cp...)
	h.written += int64(len(cp))
	if netDebug {
		rt.Log("net %s accept %d size=%d at=%v", h.name, len(cp), h.size, at)
	}
	h.wakeReader()
}

func (c *Conn) Read(b []byte) (int, error) {
	h := c.r
	if len(b) == 0 {
		return 0, nil
	}
	for {
		if c.closed {
			return 0, errClosedConn
		}
		if h.readErr != nil {
			err := h.readErr
			h.readErr = nil
			rt.Fault("F7.read-error")
			return 0, err
		}
		now := rt.Now()
		if len(h.chunks) > 0 && h.chunks[0].readyAt <= now {
			ch := &h.chunks[0]
			max := len(ch.data)
			if max > len(b) {
				max = len(b)
			}
			n := max
			if max > 1 {
				small := len(b) <= 16 // header-sized reads are cut into tiny pieces, bulk reads into a few
				switch h.cfg.FragMode {
				case 1:
					n = max - pick("net.frag", max)
				case 2:
					if small {
						if pick("net.frag", 4) != 3 {
							n = 1
						}
					} else if pick("net.frag", 2) == 1 {
						n = max - pick("net.frag", max)
					}
				case 3:
					if small || pick("net.frag", 8) == 7 {
						lim := min(max, 9)
						n = lim - pick("net.frag", lim)
					} else {
						n = max - pick("net.frag", max)
					}
				}
			}
			if n < max {
				rt.Fault("F1.fragmented-read")
			}
			copy(b, ch.data[:n])
			ch.data = ch.data[n:]
			if len(ch.data) == 0 {
				h.chunks = h.chunks[1:]
			}
			h.size -= n
			if netDebug {
				rt.Log("net %s read %d size=%d", h.name, n, h.size)
			}
			c.ReadsN++
			c.BytesIn += int64(n)
			if c.onRead != nil {
				c.onRead()
			}
			h.wakeWriter()
			return n, nil
		}
		if len(h.chunks) == 0 && h.wClosed {
			if h.reset {
				return 0, errReset
			}
			return 0, io.EOF
		}
		// block: until data arrives / becomes ready / deadline
		var wait time.Duration = -1
		if len(h.chunks) > 0 {
			wait = h.chunks[0].readyAt - now
		}
		if c.rdlSet {
			d := time.Until(c.rdl)
			if d <= 0 {
				c.Deadline++
				rt.Fault("F8.read-deadline")
				return 0, &net.OpError{Op: "read", Net: "sim", Err: timeoutErr{}}
			}
			if wait < 0 || d < wait {
				wait = d
			}
		}
		h.rWaiting = true
		if wait < 0 {
			<-h.notifyR
		} else {
			tm := time.NewTimer(wait)
			select {
			case <-h.notifyR:
				tm.Stop()
			case <-tm.C:
			}
		}
		h.rWaiting = false
	}
}

// Close closes this endpoint: the peer sees EOF after draining what was written.
func (c *Conn) Close() error {
	if c.closed {
		return nil
	}
	c.closed = true
	c.w.wClosed = true
	c.r.rClosed = true
	c.w.wakeReader()
	c.w.wakeWriter()
	c.r.wakeReader()
	c.r.wakeWriter()
	return nil
}

// CloseWrite half-closes (F5): the peer reads EOF, this side keeps reading.
func (c *Conn) CloseWrite() {
	c.w.wClosed = true
	c.w.wakeReader()
	rt.Fault("F5.half-close")
}

func (c *Conn) LocalAddr() net.Addr  { return simAddr("sim-" + c.name) }
func (c *Conn) RemoteAddr() net.Addr { return simAddr("sim-peer-of-" + c.name) }
func (c *Conn) SetDeadline(t time.Time) error {
	return c.SetReadDeadline(t)
}
func (c *Conn) SetReadDeadline(t time.Time) error {
	c.rdl = t
	c.rdlSet = !t.IsZero()
	return nil
}
func (c *Conn) SetWriteDeadline(time.Time) error { return nil }

// readFull reads exactly len(b) bytes (harness helper for raw peers).
func readFull(c net.Conn, b []byte) error {
	_, err := io.ReadFull(c, b)
	return err
}

var netDebug = os.Getenv("VERIF_NETLOG") != ""

var errShortFrame = errors.New("short frame")
