package sim

import (
	"github.com/blinklabs-io/gouroboros/protocol"
	"github.com/blinklabs-io/gouroboros/protocol/blockfetch"
	"github.com/blinklabs-io/gouroboros/protocol/chainsync"
	"github.com/blinklabs-io/gouroboros/protocol/handshake"
	"github.com/blinklabs-io/gouroboros/protocol/keepalive"
	"github.com/blinklabs-io/gouroboros/protocol/localstatequery"
	"github.com/blinklabs-io/gouroboros/protocol/localtxmonitor"
	"github.com/blinklabs-io/gouroboros/protocol/localtxsubmission"
	"github.com/blinklabs-io/gouroboros/protocol/peersharing"
	"github.com/blinklabs-io/gouroboros/protocol/txsubmission"
)

// earlierInstances constructs (and never starts) the library's client and server objects of one
// mini-protocol the way Connection does after a handshake: protocol options carrying the
// negotiated version, default configuration.
func earlierInstances(label string, opts protocol.ProtocolOptions) {
	switch label {
	case "handshake-ntn", "handshake-ntc":
		cfg := handshake.NewConfig()
		_ = handshake.New(opts, &cfg)
	case "chainsync-ntn", "chainsync-ntc":
		cfg := chainsync.NewConfig()
		_ = chainsync.New(opts, &cfg)
	case "blockfetch":
		cfg, _ := blockfetch.NewConfig()
		_ = blockfetch.New(opts, &cfg)
	case "txsubmission":
		cfg := txsubmission.NewConfig()
		_ = txsubmission.New(opts, &cfg)
	case "keepalive":
		cfg := keepalive.NewConfig()
		_ = keepalive.New(opts, &cfg)
	case "localtxsubmission":
		cfg := localtxsubmission.NewConfig()
		_ = localtxsubmission.New(opts, &cfg)
	case "localstatequery":
		cfg := localstatequery.NewConfig()
		_ = localstatequery.New(opts, &cfg)
	case "localtxmonitor":
		cfg := localtxmonitor.NewConfig()
		_ = localtxmonitor.New(opts, &cfg)
	case "peersharing":
		cfg := peersharing.NewConfig()
		_ = peersharing.New(opts, &cfg)
	}
}
