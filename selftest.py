"""Determinism self-test and instrumenter validation (DESIGN 10.2, 10.3)."""
import json, os, subprocess, sys, shutil, time

def main(build, goenv, worker_env):
    bdir, th = build()
    go, env = goenv()
    binp = bdir + "/sim.test"
    out = subprocess.run([binp, "-test.list", ".*"], env=env, stdout=subprocess.PIPE, text=True).stdout
    # scenario names come from the registry: ask the binary
    e = worker_env(env, VERIF_SCENARIO="__list__")
    p = subprocess.run([binp, "-test.run", "^TestSim$", "-test.timeout", "0"], env=e, stdout=subprocess.PIPE, stderr=subprocess.STDOUT, text=True)
    names = []
    for line in p.stdout.splitlines():
        if "have [" in line:
            names = line[line.index("have [") + 6:line.rindex("]")].split()
    if not names:
        print(p.stdout)
        return 2
    seeds = int(os.environ.get("VERIF_SELFTEST_SEEDS", "32"))
    bad = 0
    t0 = time.time()
    outdir = bdir + "/selftest"
    shutil.rmtree(outdir, ignore_errors=True)
    os.makedirs(outdir)
    for sc in names:
        hashes = {}
        procs = []
        for gmp in ("1", "4", "16"):
            for rep in (0, 1):
                o = "%s/%s-%s-%d.json" % (outdir, sc, gmp, rep)
                e = worker_env(env, VERIF_SCENARIO=sc, VERIF_SEED=4242, VERIF_RUNS=seeds, VERIF_OUT=o, VERIF_DETCHECK=0, VERIF_HASHLIST=1, VERIF_KNOWN="*", VERIF_NOSHRINK=1)
                e["GOMAXPROCS"] = gmp
                procs.append((subprocess.Popen([binp, "-test.run", "^TestSim$", "-test.timeout", "0"], env=e, stdout=subprocess.DEVNULL, stderr=subprocess.DEVNULL), o, gmp, rep))
        res = []
        for p, o, gmp, rep in procs:
            rc = p.wait()
            if rc != 0 or not os.path.exists(o):
                print("selftest: worker failed for %s (GOMAXPROCS=%s): rc=%s" % (sc, gmp, rc))
                bad += 1
                continue
            d = json.load(open(o))
            res.append((gmp, rep, d.get("log_hash_list"), d["unowned"]))
        ref = res[0][2] if res else None
        ok = all(r[2] == ref for r in res) and ref is not None
        unowned = sum(r[3] for r in res)
        print("selftest %-14s %s  (%d seeds x 2 processes x GOMAXPROCS 1/4/16, unowned wakeups %d)" % (sc, "deterministic" if ok else "NON-DETERMINISTIC", seeds, unowned))
        if not ok or unowned:
            bad += 1
    shutil.rmtree(outdir, ignore_errors=True)
    print("selftest: %d scenarios, %d problems, %.0fs" % (len(names), bad, time.time() - t0))
    return 2 if bad else 0


def passthrough(build, goenv):
    """Run the repository's own tests for the instrumented packages against the
    instrumented copy with verifsimrt in pass-through mode."""
    bdir, th = build(keep_src=True)
    go, env = goenv()
    pkgs = [".", "./muxer/...", "./protocol/...", "./pipeline/...", "./connection/..."]
    p = subprocess.run([go, "test", "-vet=off", "-count=1", "-timeout", "20m"] + pkgs, env=env, cwd=bdir + "/repo", stdout=subprocess.PIPE, stderr=subprocess.STDOUT, text=True)
    lines = [l for l in p.stdout.splitlines() if not l.startswith("ok ") and "no test files" not in l]
    print("\n".join(lines[-40:]))
    print("passthrough: go test exit %d" % p.returncode)
    shutil.rmtree(bdir + "/repo", ignore_errors=True)
    shutil.rmtree(bdir + "/harness", ignore_errors=True)
    return 0 if p.returncode == 0 else 2
