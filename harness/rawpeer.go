package sim

import (
	"encoding/binary"
	"sync"
	"time"

	"github.com/blinklabs-io/gouroboros/muxer"
	rt "github.com/blinklabs-io/gouroboros/verifsimrt"
)

// rawPeer speaks muxer frames directly on a simnet endpoint: a scripted
// (possibly Byzantine) remote node.
type rawPeer struct {
	c       *Conn
	Frames  []Frame // everything received, in order
	readErr error
	eof     bool
	stop    bool
	onFrame func(f Frame)
	// pauseAfter >= 0: once that many bytes have been read the peer stops reading (a stalled
	// node: the real side's writes fill the socket buffer and block) until it is closed
	pauseAfter int64
	nread      int64
	paused     bool
	wmu        sync.Mutex
}

func newRawPeer(c *Conn) *rawPeer {
	r := &rawPeer{c: c, pauseAfter: -1}
	go r.readLoop()
	return r
}

func (r *rawPeer) readLoop() {
	hdr := make([]byte, 8)
	for {
		for r.pauseAfter >= 0 && r.nread >= r.pauseAfter && !r.stop && !r.c.closed {
			if !r.paused {
				r.paused = true
				rt.Fault("F9.peer-stops-reading")
			}
			sleep(time.Second)
		}
		if err := readFull(r.c, hdr); err != nil {
			r.readErr = err
			r.eof = true
			return
		}
		id := binary.BigEndian.Uint16(hdr[4:])
		ln := int(binary.BigEndian.Uint16(hdr[6:]))
		payload := make([]byte, ln)
		if err := readFull(r.c, payload); err != nil {
			r.readErr = err
			r.eof = true
			return
		}
		r.nread += int64(8 + ln)
		f := Frame{Proto: id & 0x7fff, Response: id&0x8000 != 0, Payload: payload}
		r.Frames = append(r.Frames, f)
		if r.onFrame != nil {
			r.onFrame(f)
		}
	}
}

// send writes one frame.
func (r *rawPeer) send(proto uint16, response bool, payload []byte) error {
	// one frame at a time: with a bounded socket buffer a Write proceeds in pieces, and the
	// keep-alive task must not slip its frame into the middle of another one
	r.wmu.Lock()
	defer r.wmu.Unlock()
	_, err := r.c.Write(encodeFrame(proto, response, payload))
	return err
}

// sendMsg writes a message, split into segments at tape-chosen points (always
// <= 65535 bytes per segment, never empty).
func (r *rawPeer) sendMsg(proto uint16, response bool, msg []byte) error {
	for len(msg) > 0 {
		n := len(msg)
		if n > 65535 {
			n = 65535
		}
		if n > 1 && chance("net.seg", 1, 6) {
			n = 1 + pick("net.seg", n)
		}
		if err := r.send(proto, response, msg[:n]); err != nil {
			return err
		}
		msg = msg[n:]
	}
	return nil
}

// stream returns the concatenated payloads received for one protocol/direction.
func (r *rawPeer) stream(proto uint16, response bool) []byte {
	return protoStream(r.Frames, proto, response)
}

// keepAlive keeps the real side's 120 s read deadline quiet, as a live peer's
// keep-alive protocol would: frames on a dedicated protocol id that the real
// muxer has a (draining) receiver for.
func (r *rawPeer) keepAlive(m *muxer.Muxer, asResponse bool) {
	role := muxer.ProtocolRoleResponder
	if asResponse {
		role = muxer.ProtocolRoleInitiator
	}
	_, rc, _ := m.RegisterProtocol(0x7001, role)
	if rc == nil {
		return
	}
	go func() {
		for range rc {
		}
	}()
	go func() {
		for !r.stop && !r.c.closed {
			if err := r.send(0x7001, asResponse, []byte{0}); err != nil {
				return
			}
			sleep(40 * time.Second)
		}
	}()
}

func (r *rawPeer) close() {
	r.stop = true
	r.c.Close()
	rt.Log("raw peer closed the connection")
}
