package sim

import (
	"bytes"
	"encoding/binary"
	"fmt"
	"strings"
	"time"

	"github.com/blinklabs-io/gouroboros/muxer"
	rt "github.com/blinklabs-io/gouroboros/verifsimrt"
)

// Scenario MUX (C09): two real muxers over simnet, several registrations,
// concurrent senders (registered channel and Muxer.Send), stalling receivers.

func init() {
	register(&Scenario{Name: "mux", Setup: muxSetup})
	register(&Scenario{Name: "mux-adv", Setup: muxAdvSetup})
}

// payload content is a pure function of (stream, sub, seq, len)
func muxPayload(stream, sub uint8, seq uint16, n int) []byte {
	b := make([]byte, n)
	x := uint32(stream)<<24 | uint32(sub)<<16 | uint32(seq)
	x = x*2654435761 + 12345
	for i := range b {
		x = x*1664525 + 1013904223
		b[i] = byte(x >> 24)
	}
	if n >= 4 {
		b[0], b[1] = stream, sub
		binary.BigEndian.PutUint16(b[2:], seq)
	}
	return b
}

var muxSizes = []int{4, 5, 7, 8, 9, 16, 255, 256, 1000, 4096}
var muxBigSizes = []int{65534, 65535, 65533, 32768, 20000}

type muxReg struct {
	stream   uint8
	side     int // 0 = A sends, 1 = B sends
	proto    uint16
	response bool // direction bit the sender uses
	sendCh   chan *muxer.Segment
	doneCh   chan bool
	recvCh   chan *muxer.Segment // on the other side
	nsub     int
	tiny     bool
	sent     [2]int // per sub-stream: number of segments whose submission completed
	started  [2]int // per sub-stream: number of segments whose submission began
	sizes    [2][]int
	recvd    [2]int
	recvDone bool
	sendDone int
	// F15: the receiving endpoint unregisters this protocol while the stream flows
	recvMux  *muxer.Muxer
	recvRole muxer.ProtocolRole
	unreg    bool
}

func muxSetup(s *rt.Sim, tier string) func() {
	schedCfg(s, true)
	s.Cfg.MaxSteps = 40000
	s.Cfg.Horizon = 6 * time.Hour
	return func() {
		cfg := drawNetCfg(true)
		pair := NewPair(cfg)
		mA := muxer.New(pair.A)
		mB := muxer.New(pair.B)
		nreg := 1 + pick("cfg", 5)
		perStream := 1 + pick("cfg", 12)
		tinyRun := chance("cfg", 1, 5)
		faulty := chance("cfg", 1, 3)
		var regs []*muxReg
		used := map[string]bool{}
		for i := 0; i < nreg; i++ {
			r := &muxReg{stream: uint8(i + 1)}
			r.side = pick("cfg", 2)
			r.proto = oneOf[uint16]("cfg", 2, 3, 5, 8, 0x7fff, 0)
			r.response = chance("cfg", 1, 2)
			key := fmt.Sprintf("%d/%d/%v", r.side, r.proto, r.response)
			if used[key] {
				continue
			}
			used[key] = true
			// the sender's role decides nothing in the muxer except the map slot;
			// the receiver slot is chosen by the direction bit: request -> Responder, response -> Initiator
			sendRole, recvRole := muxer.ProtocolRoleInitiator, muxer.ProtocolRoleResponder
			if r.response {
				sendRole, recvRole = muxer.ProtocolRoleResponder, muxer.ProtocolRoleInitiator
			}
			ms, mr := mA, mB
			if r.side == 1 {
				ms, mr = mB, mA
			}
			// the same (proto, role) slot may already be registered on that muxer
			// by the opposite-direction stream; reuse is not possible, so skip
			k2 := fmt.Sprintf("slot/%d/%d/%d", r.side, r.proto, sendRole)
			k3 := fmt.Sprintf("slot/%d/%d/%d", 1-r.side, r.proto, recvRole)
			if used[k2] || used[k3] {
				continue
			}
			used[k2], used[k3] = true, true
			r.sendCh, _, r.doneCh = ms.RegisterProtocol(r.proto, sendRole)
			_, r.recvCh, _ = mr.RegisterProtocol(r.proto, recvRole)
			r.recvMux, r.recvRole = mr, recvRole
			r.nsub = 1
			if !tinyRun && chance("cfg", 1, 2) {
				r.nsub = 2
			}
			r.tiny = tinyRun
			regs = append(regs, r)
		}
		if chance("cfg", 1, 2) {
			mA.SetDiffusionMode(muxer.DiffusionModeInitiatorAndResponder)
			mB.SetDiffusionMode(muxer.DiffusionModeInitiatorAndResponder)
		}
		// NewSegment length guard
		for _, n := range []int{65536, 70000} {
			if muxer.NewSegment(2, make([]byte, n), false) != nil {
				rt.Violate("C09/oversize-segment-created", "NewSegment accepted %d payload bytes", n)
			}
		}
		if faulty {
			switch pick("fault", 4) {
			case 0:
				h := oneOf("fault", pair.AB, pair.BA)
				h.CutAfter(int64(pick("fault", 200000)))
			case 1:
				h := oneOf("fault", pair.AB, pair.BA)
				h.wErrAt = int64(pick("fault", 100000))
			case 2:
				h := oneOf("fault", pair.AB, pair.BA)
				h.readErr = fmt.Errorf("injected read error")
			case 3:
				// nothing armed: long stalls may still trip the read deadline
			}
		}
		errsA, errsB := []error{}, []error{}
		go func() {
			for e := range mA.ErrorChan() {
				errsA = append(errsA, e)
				rt.Log("muxer A error: %v", e)
			}
		}()
		go func() {
			for e := range mB.ErrorChan() {
				errsB = append(errsB, e)
				rt.Log("muxer B error: %v", e)
			}
		}()
		mA.Start()
		mB.Start()
		// background traffic on a dedicated protocol id in both directions keeps the muxers'
		// 120 s read deadline from ending an otherwise healthy connection while receivers drain
		kaStop := false
		for side, m := range []*muxer.Muxer{mA, mB} {
			sendCh, _, doneCh := m.RegisterProtocol(0x7001, muxer.ProtocolRoleInitiator)
			other := mB
			if side == 1 {
				other = mA
			}
			_, rc, _ := other.RegisterProtocol(0x7001, muxer.ProtocolRoleResponder)
			go func() {
				for range rc {
				}
			}()
			go func() {
				for !kaStop {
					select {
					case sendCh <- muxer.NewSegment(0x7001, []byte{0}, false):
					case <-doneCh:
						return
					}
					sleep(40 * time.Second)
				}
			}()
		}
		// F15 (own stream of draws): one receiver unregisters its protocol in mid-stream. What the
		// muxer then does with that protocol's segments is its business (drop them, or end the
		// connection with an "unknown protocol" error); the other streams of a connection that
		// reports no error must still arrive completely.
		cleanUnreg := false
		if len(regs) > 1 && rt.Choose("cfg.x", 3) == 2 {
			victim := regs[rt.Choose("cfg.x", len(regs))]
			delay := oneOf("cfg.x", time.Millisecond, 20*time.Millisecond, 300*time.Millisecond, 2*time.Second, 45*time.Second)
			quiesced := rt.Choose("cfg.x", 2) == 1
			go func() {
				if quiesced {
					// variant: the victim's stream is complete (everything submitted has been
					// delivered) before its receiver unregisters. No segment for an unregistered
					// protocol can exist then, so an "unknown protocol" error afterwards would
					// mean the unregistration took something else with it (another role of the
					// same protocol number, for instance)
					for i := 0; i < 6000; i++ {
						done := victim.sendDone == victim.nsub
						for sub := 0; sub < victim.nsub; sub++ {
							if victim.recvd[sub] != victim.sent[sub] {
								done = false
							}
						}
						if done {
							break
						}
						if i == 5999 {
							return
						}
						sleep(100 * time.Millisecond)
					}
					rt.Fault("F15.unregister-after-stream-complete")
					victim.unreg = true
					cleanUnreg = true
					victim.recvMux.UnregisterProtocol(victim.proto, victim.recvRole)
					return
				}
				sleep(delay)
				rt.Fault("F15.unregister-while-receiving")
				victim.unreg = true
				victim.recvMux.UnregisterProtocol(victim.proto, victim.recvRole)
			}()
		}
		allDone := make(chan struct{}, 64)
		for _, r := range regs {
			r := r
			for sub := 0; sub < r.nsub; sub++ {
				sub := sub
				go func() {
					defer func() { r.sendDone++; allDone <- struct{}{} }()
					ms := mA
					if r.side == 1 {
						ms = mB
					}
					for i := 0; i < perStream; i++ {
						n := oneOf("op", muxSizes...)
						switch pick("op", 8) {
						case 6:
							n = oneOf("op", muxBigSizes...)
						case 7:
							n = 4 + pick("op", 65532)
						}
						if cfg.BufCap > 0 && cfg.BufCap <= 1024 && n > 4096 {
							n = 4096
						}
						if r.tiny {
							n = 1 + pick("op", 3)
						}
						seg := muxer.NewSegment(r.proto, muxPayload(r.stream, uint8(sub), uint16(i), n), r.response)
						if seg == nil {
							rt.Violate("C09/segment-refused", "NewSegment refused %d bytes", n)
							return
						}
						r.sizes[sub] = append(r.sizes[sub], n)
						r.started[sub]++
						if sub == 0 {
							select {
							case r.sendCh <- seg:
							case <-r.doneCh:
								return
							}
						} else {
							if err := ms.Send(seg); err != nil {
								return
							}
						}
						r.sent[sub]++
						if chance("op", 1, 6) {
							sleep(oneOf("op", time.Millisecond, time.Second, 50*time.Second))
						}
					}
				}()
			}
			go func() {
				for seg := range r.recvCh {
					if seg.GetProtocolId() != r.proto || seg.IsResponse() != r.response {
						rt.Violate("C09/misrouted", "stream %d got segment proto=%d resp=%v", r.stream, seg.GetProtocolId(), seg.IsResponse())
						return
					}
					p := seg.Payload
					sub := 0
					if !r.tiny {
						if len(p) < 4 || p[0] != r.stream || int(p[1]) >= r.nsub {
							rt.Violate("C09/misrouted-or-corrupt", "stream %d received payload head % x (len %d)", r.stream, p[:min(len(p), 4)], len(p))
							return
						}
						sub = int(p[1])
					}
					seq := r.recvd[sub]
					if seq >= r.started[sub] {
						rt.Violate("C09/phantom-segment", "stream %d/%d received segment #%d but only %d were submitted", r.stream, sub, seq, r.started[sub])
						return
					}
					want := muxPayload(r.stream, uint8(sub), uint16(seq), r.sizes[sub][seq])
					if !bytes.Equal(p, want) {
						rt.Violate("C09/payload-corrupt-or-reordered", "stream %d/%d segment #%d: got len %d head % x, want len %d head % x", r.stream, sub, seq, len(p), p[:min(len(p), 6)], len(want), want[:min(len(want), 6)])
						return
					}
					r.recvd[sub]++
					rt.Hit("mux.segment-delivered")
					if chance("op", 1, 8) {
						sleep(oneOf("op", time.Millisecond, 200*time.Millisecond, 20*time.Second))
					}
				}
				r.recvDone = true
			}()
		}
		// wait for all senders
		nsend := 0
		for _, r := range regs {
			nsend += r.nsub
		}
		for i := 0; i < nsend; i++ {
			<-allDone
		}
		// drain: until everything submitted was delivered, or the connection broke, or 1 h passed
		allDelivered := func() bool {
			for _, r := range regs {
				if r.unreg {
					continue
				}
				for sub := 0; sub < r.nsub; sub++ {
					if r.recvd[sub] != r.sent[sub] {
						return false
					}
				}
			}
			return true
		}
		isBroken := func() bool { return len(errsA) > 0 || len(errsB) > 0 || pair.AB.wClosed || pair.BA.wClosed }
		for i := 0; i < 360 && !allDelivered() && !isBroken(); i++ {
			sleep(10 * time.Second)
		}
		broken := isBroken()
		if broken {
			rt.Hit("mux.connection-broken")
		} else {
			rt.Hit("mux.clean-run")
		}
		kaStop = true
		if cleanUnreg {
			for _, e := range append(append([]error{}, errsA...), errsB...) {
				if strings.Contains(e.Error(), "unknown protocol") {
					rt.Violate("C09/unregister-removed-another-receiver", "a receiver unregistered after its stream had been delivered completely; afterwards the muxer reported %q although every segment on the wire belongs to a registered receiver", e.Error())
				}
			}
		}
		for _, r := range regs {
			for sub := 0; sub < r.nsub; sub++ {
				if r.recvd[sub] > r.started[sub] {
					rt.Violate("C09/phantom-segment", "stream %d/%d", r.stream, sub)
				}
				if !broken && !r.unreg && r.recvd[sub] != r.sent[sub] {
					rt.Violate("C09/segment-lost", "stream %d/%d: %d submitted, %d delivered, no transport fault", r.stream, sub, r.sent[sub], r.recvd[sub])
				}
			}
		}
		// independent wire parse
		for side, h := range []*half{pair.AB, pair.BA} {
			frames, _ := parseFrames(h.Log)
			next := map[[2]uint8]int{}
			for _, f := range frames {
				if f.Proto == 0x7001 {
					continue
				}
				var reg *muxReg
				for _, r := range regs {
					if r.side == side && r.proto == f.Proto && r.response == f.Response {
						reg = r
					}
				}
				if reg == nil {
					rt.Violate("C09/wire-unknown-frame", "frame for proto %d resp=%v on %s that nobody sent", f.Proto, f.Response, h.name)
					break
				}
				if len(f.Payload) == 0 {
					rt.Violate("C09/wire-empty-frame", "zero-length frame on %s", h.name)
					break
				}
				sub := 0
				if !reg.tiny {
					if len(f.Payload) < 4 || f.Payload[0] != reg.stream || int(f.Payload[1]) >= reg.nsub {
						rt.Violate("C09/wire-interleaved", "frame payload on %s is not one submitted payload", h.name)
						break
					}
					sub = int(f.Payload[1])
				}
				k := [2]uint8{reg.stream, uint8(sub)}
				seq := next[k]
				if seq >= len(reg.sizes[sub]) || !bytes.Equal(f.Payload, muxPayload(reg.stream, uint8(sub), uint16(seq), reg.sizes[sub][seq])) {
					rt.Violate("C09/wire-interleaved", "frame #%d of stream %d/%d on %s differs from the submitted payload", seq, reg.stream, sub, h.name)
					break
				}
				next[k] = seq + 1
			}
			if len(frames) > 0 {
				rt.Hit("mux.frames-on-wire")
			}
		}
		mA.Stop()
		mB.Stop()
	}
}

// muxAdvSetup: a raw peer feeds a real muxer offending frames.
func muxAdvSetup(s *rt.Sim, tier string) func() {
	schedCfg(s, true)
	s.Cfg.MaxSteps = 20000
	s.Cfg.MaxStall = 30 * time.Second
	s.Cfg.Horizon = 2 * time.Hour
	return func() {
		cfg := drawNetCfg(false)
		pair := NewPair(cfg)
		m := muxer.New(pair.A)
		// registrations on the real side
		type reg struct {
			proto uint16
			role  muxer.ProtocolRole
			ch    chan *muxer.Segment
			got   int
			after int
		}
		var regs []*reg
		for _, p := range []uint16{2, 3} {
			for _, role := range []muxer.ProtocolRole{muxer.ProtocolRoleInitiator, muxer.ProtocolRoleResponder} {
				if chance("cfg", 2, 3) {
					_, ch, _ := m.RegisterProtocol(p, role)
					regs = append(regs, &reg{proto: p, role: role, ch: ch})
				}
			}
		}
		mode := oneOf("cfg", muxer.DiffusionModeInitiatorAndResponder, muxer.DiffusionModeInitiator, muxer.DiffusionModeResponder, muxer.DiffusionModeNone)
		m.SetDiffusionMode(mode)
		var errs []error
		errClosed := false
		go func() {
			for e := range m.ErrorChan() {
				errs = append(errs, e)
				rt.Log("muxer error: %v", e)
			}
			errClosed = true
		}()
		offended := false
		for _, r := range regs {
			r := r
			go func() {
				for range r.ch {
					r.got++
					if offended {
						r.after++
					}
				}
			}()
		}
		m.Start()
		has := func(p uint16, role muxer.ProtocolRole) bool {
			for _, r := range regs {
				if r.proto == p && r.role == role {
					return true
				}
			}
			return false
		}
		// some valid traffic first
		nvalid := pick("op", 4)
		valid := 0
		for i := 0; i < nvalid && len(regs) > 0; i++ {
			r := regs[pick("op", len(regs))]
			resp := r.role == muxer.ProtocolRoleInitiator
			if mode == muxer.DiffusionModeInitiator && !resp || mode == muxer.DiffusionModeResponder && resp {
				continue
			}
			pair.B.Write(encodeFrame(r.proto, resp, muxPayload(9, 0, uint16(i), 4+pick("op", 300))))
			valid++
		}
		// the offending frame
		kind := pick("op", 3)
		var desc string
		switch kind {
		case 0:
			proto := uint16(2)
			resp := chance("op", 1, 2)
			pair.B.Write(encodeFrame(proto, resp, nil))
			desc = "zero-length segment"
		case 1:
			proto := oneOf[uint16]("op", 7, 100, 0x7ffe, 3, 2)
			resp := chance("op", 1, 2)
			role := muxer.ProtocolRoleResponder
			if resp {
				role = muxer.ProtocolRoleInitiator
			}
			if has(proto, role) {
				// registered after all: make it an unregistered id
				proto = 0x1234
			}
			if mode == muxer.DiffusionModeInitiator && !resp || mode == muxer.DiffusionModeResponder && resp {
				desc = "wrong-direction segment (also unregistered)"
			} else {
				desc = fmt.Sprintf("segment for unregistered protocol %d resp=%v", proto, resp)
			}
			pair.B.Write(encodeFrame(proto, resp, []byte{1, 2, 3}))
		case 2:
			if mode != muxer.DiffusionModeInitiator && mode != muxer.DiffusionModeResponder {
				pair.B.Write(encodeFrame(2, false, nil))
				desc = "zero-length segment"
			} else {
				resp := mode == muxer.DiffusionModeResponder
				pair.B.Write(encodeFrame(2, resp, []byte{0x80}))
				desc = "wrong-direction segment for the diffusion mode"
			}
		}
		offended = true
		rt.Log("sent offending frame: %s", desc)
		// more frames after the offence: must never be delivered
		for i := 0; i < 2 && len(regs) > 0; i++ {
			r := regs[pick("op", len(regs))]
			resp := r.role == muxer.ProtocolRoleInitiator
			pair.B.Write(encodeFrame(r.proto, resp, []byte{9, 9, 9, 9}))
		}
		sleep(10 * time.Minute)
		if len(errs) == 0 {
			rt.Violate("C09/offence-no-error", "%s: no error on ErrorChan", desc)
		}
		if !pair.A.closed {
			rt.Violate("C09/offence-conn-open", "%s: connection not closed", desc)
		}
		if !errClosed {
			rt.Violate("C09/offence-errorchan-open", "%s: ErrorChan not closed", desc)
		}
		tot := 0
		for _, r := range regs {
			tot += r.got
			if r.after > 0 && r.got > valid {
				// r.after counts deliveries that happened after the offending frame
				// was *written*; only deliveries beyond the valid prefix are wrong
				rt.Violate("C09/delivery-after-offence", "%s: segment delivered after the offending frame", desc)
			}
		}
		if tot > valid {
			rt.Violate("C09/delivery-after-offence", "%s: %d segments delivered, only %d valid ones precede the offending frame", desc, tot, valid)
		}
		rt.Hit("muxadv." + desc[:4])
	}
}
