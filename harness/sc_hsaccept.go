package sim

import (
	"fmt"
	"time"

	ouroboros "github.com/blinklabs-io/gouroboros"
	rt "github.com/blinklabs-io/gouroboros/verifsimrt"
)

// Scenario ADV-ACCEPT (C19): a real initiating Connection against a raw
// responder that answers ProposeVersions with an arbitrary AcceptVersion.

func init() {
	register(&Scenario{Name: "hs-accept", Setup: hsAcceptSetup})
}

const (
	shapeNtCOld = iota // uint magic
	shapeNtCNew        // [magic, query]
	shapeNtNOld        // [magic, duplex]
	shapeNtNNew        // [magic, duplex, peerSharing, query]
	shapeMalformed
)

// specShape is the version-data shape the network specification (and CIP-0137
// for the DMQ versions) prescribes for a version number; -1 = unknown version.
func specShape(v uint16) int {
	switch {
	case v >= 0x8000+9 && v <= 0x8000+14:
		return shapeNtCOld
	case v >= 0x8000+15 && v <= 0x8000+21:
		return shapeNtCNew
	case v == 0x1001:
		return shapeNtCNew
	case v >= 7 && v <= 10:
		return shapeNtNOld
	case v >= 11 && v <= 15:
		return shapeNtNNew
	case v == 1 || v == 2:
		return shapeNtNNew // DMQ node-to-node
	}
	return -1
}

func encodeVersionData(shape int, magic uint32) []byte {
	var b []byte
	switch shape {
	case shapeNtCOld:
		b = cborUint(nil, 0, uint64(magic))
	case shapeNtCNew:
		b = append([]byte{0x82}, cborUint(nil, 0, uint64(magic))...)
		b = append(b, 0xf4)
	case shapeNtNOld:
		b = append([]byte{0x82}, cborUint(nil, 0, uint64(magic))...)
		b = append(b, 0xf4)
	case shapeNtNNew:
		b = append([]byte{0x84}, cborUint(nil, 0, uint64(magic))...)
		b = append(b, 0xf4, 0x00, 0xf4)
	default:
		b = []byte{0x63, 'b', 'a', 'd'}
	}
	return b
}

// encodeVersionDataBadField is version data of the right shape and length with
// the given magic, in which one later field has a CBOR type the specification
// does not allow there (a flag that is not a bool, a negative or textual
// peer-sharing value).
func encodeVersionDataBadField(shape int, magic uint32, which int) ([]byte, bool) {
	m := cborUint(nil, 0, uint64(magic))
	switch shape {
	case shapeNtCNew, shapeNtNOld:
		return append(append([]byte{0x82}, m...), []byte{0x01, 0x20}[which%2]), true // flag is a uint / a negative int
	case shapeNtNNew:
		b := append([]byte{0x84}, m...)
		switch which % 4 {
		case 0:
			return append(b, 0x01, 0x00, 0xf4), true // diffusion flag is a uint
		case 1:
			return append(b, 0xf4, 0x20, 0xf4), true // peer sharing is negative
		case 2:
			return append(b, 0xf4, 0x61, 'x', 0xf4), true // peer sharing is text
		default:
			return append(b, 0xf4, 0x00, 0x01), true // query flag is a uint
		}
	}
	return nil, false
}

// encodeVersionDataNullOrRange is version data of the right shape, length and
// magic with a CBOR null in place of a boolean, or a peer-sharing value outside
// every version's range (99) or just outside the accepted version's range.
func encodeVersionDataNullOrRange(shape int, magic uint32, which int, version uint16) ([]byte, bool) {
	m := cborUint(nil, 0, uint64(magic))
	switch shape {
	case shapeNtCNew, shapeNtNOld:
		return append(append([]byte{0x82}, m...), 0xf6), true
	case shapeNtNNew:
		b := append([]byte{0x84}, m...)
		switch which % 5 {
		case 4:
			// the smallest peer-sharing mode the accepted version does not have: 3 for versions
			// 11 and 12 (no / private / public), 2 from version 13 on (no / public)
			ps := byte(2)
			if version == 11 || version == 12 {
				ps = 3
			}
			return append(b, 0xf4, ps, 0xf4), true
		case 0:
			return append(b, 0xf6, 0x00, 0xf4), true // diffusion mode is null
		case 1:
			return append(b, 0xf4, 0xf6, 0xf4), true // peer sharing is null
		case 2:
			return append(b, 0xf4, 0x00, 0xf6), true // query flag is null
		default:
			return append(b, 0xf4, 0x18, 0x63, 0xf4), true // peer sharing 99
		}
	}
	return nil, false
}

func hsAcceptSetup(s *rt.Sim, tier string) func() {
	schedCfg(s, true)
	s.Cfg.MaxSteps = 40000
	s.Cfg.MaxStall = 100 * time.Millisecond
	s.Cfg.Horizon = 2 * time.Hour
	return func() {
		ncfg := drawNetCfg(false)
		if ncfg.Latency > 100*time.Millisecond {
			ncfg.Latency = 100 * time.Millisecond
		}
		ncfg.Jitter = 0
		pair := NewPair(ncfg)
		co := drawConnOpts(false)
		// knob (own stream): a query-mode initiator. If the responder answers with AcceptVersion
		// all the same, the rule is unchanged: only a version that was proposed may be settled on
		co.query = rt.Choose("cfg.x", 4) == 3
		configured := co.table().m
		peer := newRawPeer(pair.B)
		var conn *ouroboros.Connection
		var cErr error
		ret := false
		go func() {
			conn, cErr = ouroboros.NewConnection(co.options(pair.A)...)
			ret = true
		}()
		// wait for the proposal
		for i := 0; i < 600; i++ {
			if n, err := cborItemLen(peer.stream(0, false)); err == nil && n > 0 {
				break
			}
			sleep(100 * time.Millisecond)
		}
		// "a version number it proposed" is what went over the wire, not what is configured
		proposed := map[uint16]bool{}
		for _, k := range wireProposedVersions(peer.stream(0, false)) {
			proposed[k] = true
		}
		if len(proposed) == 0 {
			rt.Hit("hsaccept.no-proposal-seen")
			return
		}
		for k := range configured {
			if !proposed[k] {
				rt.Hit("hsaccept.configured-version-not-proposed")
			}
		}
		// arm (own stream): the responder answers with MsgQueryReply although (in three of four
		// runs) nobody asked a question. That is no acceptance of any proposed version
		if rt.Choose("op.x", 6) == 5 {
			label := "handshake-ntc"
			if co.ntn {
				label = "handshake-ntn"
			}
			_ = peer.send(0, true, sampleBytes(label, 3, 0, 0))
			for i := 0; i < 1200 && !ret; i++ {
				sleep(time.Second)
			}
			rt.Hit("hsaccept.unsolicited-query-reply")
			if pair.A.Deadline > 0 {
				return
			}
			switch {
			case !ret:
				rt.Violate("C19/handshake-neither-completes-nor-fails", "initiator %+v: after MsgQueryReply NewConnection had not returned after 20 simulated minutes", co)
			case !co.query && cErr == nil:
				// a query reply selects no version. Ending like a query-mode connection (no
				// version, no version data, no mini-protocol) is what the reference
				// implementation does too; settling on anything is not
				got, vd := conn.ProtocolVersion()
				started := conn.ChainSync() != nil || conn.BlockFetch() != nil || conn.LocalTxSubmission() != nil || conn.LocalMessageSubmission() != nil
				if got != 0 || vd != nil || started {
					rt.Violate("C19/query-reply-completed-handshake", "initiator %+v (not in query mode) proposed %v; the responder answered with MsgQueryReply and NewConnection succeeded with version %d (version data %v), mini-protocols set up: %v", co, sortedVersions(proposed), got, vd != nil, started)
				} else {
					rt.Hit("hsaccept.query-reply-selected-nothing")
				}
			}
			peer.close()
			if conn != nil {
				conn.Close()
			}
			return
		}
		// choose the acceptance
		var v uint16
		switch pick("op", 10) {
		case 0, 1, 2, 3:
			ks := versionKeys(configured)
			v = ks[pick("op", len(ks))]
		case 4, 5, 6:
			v = oneOf[uint16]("op", 13, 14, 10, 7, 0x8000+16, 0x8000+9, 0x8000+21, 0x1001, 1, 2, 15, 0x8000+12)
		default:
			v = oneOf[uint16]("op", 0, 3, 6, 16, 100, 0x8000, 0x8000+8, 0x8000+22, 0x1000, 0x1002, 0xffff)
		}
		shape := specShape(v)
		if shape < 0 || chance("op", 1, 3) {
			shape = pick("op", 5)
		}
		magic := co.magic
		if chance("op", 1, 4) {
			magic = oneOf[uint32]("op", 1, 2, 42, 764824073, 0)
		}
		isProposed := proposed[v]
		wantOK := isProposed && shape == specShape(v) && magic == co.magic
		// shapes NtCNew/NtNOld are byte-identical ([uint, bool]); treat them as one shape
		if isProposed && magic == co.magic && ((shape == shapeNtCNew && specShape(v) == shapeNtNOld) || (shape == shapeNtNOld && specShape(v) == shapeNtCNew)) {
			wantOK = true
		}
		vdata := encodeVersionData(shape, magic)
		badField := false
		if chance("op", 1, 5) {
			if b, ok := encodeVersionDataBadField(shape, magic, pick("op", 4)); ok {
				vdata, badField, wantOK = b, true, false
				rt.Hit("hsaccept.bad-field-type")
			}
			// second family (own stream): a null where a flag belongs, a peer-sharing value no
			// version knows
			if rt.Choose("op.x", 2) == 1 {
				if b, ok := encodeVersionDataNullOrRange(shape, magic, rt.Choose("op.x", 5), v); ok {
					vdata, badField, wantOK = b, true, false
					rt.Hit("hsaccept.null-or-out-of-range-field")
				}
			}
		}
		msg := append([]byte{0x83, 0x01}, cborUint(nil, 0, uint64(v))...)
		msg = append(msg, vdata...)
		_ = peer.send(0, true, msg) // the specification requires handshake messages to fit one segment
		for i := 0; i < 1200 && !ret; i++ {
			sleep(time.Second)
		}
		desc := fmt.Sprintf("initiator %+v proposed %v; responder accepted version %d with data shape %d magic %d (field of a wrong CBOR type: %v, data % x)", co, sortedVersions(proposed), v, shape, magic, badField, vdata)
		if wantOK {
			rt.Hit("hsaccept.valid")
		} else {
			rt.Hit("hsaccept.invalid")
			if !isProposed {
				rt.Hit("hsaccept.unproposed-version")
			}
		}
		if pair.A.Deadline > 0 {
			return
		}
		switch {
		case !ret:
			rt.Violate("C19/handshake-neither-completes-nor-fails", "%s; NewConnection had not returned after 20 simulated minutes", desc)
		case wantOK && cErr != nil:
			rt.Violate("C19/valid-acceptance-rejected", "%s; NewConnection failed: %v", desc, cErr)
		case !wantOK && cErr == nil:
			cls := "C19/invalid-acceptance-completed"
			switch {
			case !isProposed:
				cls = "C19/unproposed-version-accepted"
			case magic != co.magic:
				cls = "C19/foreign-magic-accepted"
			case badField:
				cls = "C19/invalid-version-data-accepted"
			}
			got, _ := conn.ProtocolVersion()
			rt.Violate(cls, "%s; NewConnection succeeded with version %d", desc, got)
		}
		peer.close()
		if conn != nil {
			conn.Close()
		}
	}
}

// wireProposedVersions parses MsgProposeVersions ([0, {version: data, ...}]) and
// returns the version numbers it carries.
func wireProposedVersions(msg []byte) []uint16 {
	if len(msg) < 3 || msg[0] != 0x82 || msg[1] != 0x00 {
		return nil
	}
	major, n, hl, ok := cborHead(msg[2:])
	if !ok || major != 5 {
		return nil
	}
	off := 2 + hl
	var out []uint16
	for i := uint64(0); i < n; i++ {
		m, k, kl, ok := cborHead(msg[off:])
		if !ok || m != 0 {
			return out
		}
		off += kl
		out = append(out, uint16(k))
		l, err := cborItemLen(msg[off:])
		if err != nil {
			return out
		}
		off += l
	}
	return out
}

func sortedVersions(m map[uint16]bool) []uint16 {
	var ks []uint16
	for k := range m {
		ks = append(ks, k)
	}
	for i := 1; i < len(ks); i++ {
		for j := i; j > 0 && ks[j] < ks[j-1]; j-- {
			ks[j], ks[j-1] = ks[j-1], ks[j]
		}
	}
	return ks
}
