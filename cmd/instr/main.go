// instr rewrites the synchronisation constructs of Go packages in place so
// that they run under the verifsimrt cooperative scheduler.
//
//	instr -dir <module dir to load from> -root <dir used to relativise site names> [-stats file] <package patterns...>
//
// It refuses (exit 2) to proceed on a construct it does not know how to
// rewrite, rather than silently skipping it.
package main

import (
	"bytes"
	"encoding/json"
	"flag"
	"fmt"
	"go/ast"
	"go/parser"
	"go/printer"
	"go/token"
	"go/types"
	"os"
	"path/filepath"
	"sort"
	"strings"

	"golang.org/x/tools/go/ast/astutil"
	"golang.org/x/tools/go/packages"
)

const rtPath = "github.com/blinklabs-io/gouroboros/verifsimrt"
const rt = "verifsimrt"

// files whose atomics feed no decision
var skipAtomicsFiles = map[string]bool{"pipeline/metrics.go": true}

// knobs: constants turned into per-run tunables (uses are wrapped, the
// declaration stays)
var knobs = map[string]map[string]bool{
	"github.com/blinklabs-io/gouroboros/protocol": {"maxReadBufferSize": true},
}

// probe anchors: after a statement that assigns to <X>.<field> in the given
// package, insert the templated statement (X is substituted textually).
type probeAnchor struct {
	pkg, field, tmpl string
}

var probeAnchors = []probeAnchor{
	{"github.com/blinklabs-io/gouroboros/protocol", "currentState",
		`verifsimrt.Probe("state", X.config.Name, int(X.config.Role), X.currentState.Id, X.currentState.Name)`},
	{"github.com/blinklabs-io/gouroboros/protocol", "pendingRecvBytes",
		`verifsimrt.Probe("pendingRecvBytes", X.config.Name, int(X.config.Role), X.pendingRecvBytes, X.currentState.Id)`},
}

type rewriter struct {
	pkg       *packages.Package
	fset      *token.FileSet
	file      *ast.File
	relname   string
	commRecv  map[ast.Node]bool
	commSend  map[ast.Node]bool
	chanRange map[ast.Node]bool
	used      bool
	counts    map[string]int
	nsel      int
}

var anchorsFound = map[string]int{}
var mapKeyTypes = map[string]int{}

func fatalf(format string, a ...any) {
	fmt.Fprintf(os.Stderr, "instr: "+format+"\n", a...)
	os.Exit(2)
}

func main() {
	dir := flag.String("dir", ".", "directory to load packages from")
	root := flag.String("root", "", "comma separated list of prefix=dir used to name sites")
	statsFile := flag.String("stats", "", "write rewrite statistics as JSON")
	flag.Parse()
	type rootMap struct{ prefix, dir string }
	var roots []rootMap
	for _, r := range strings.Split(*root, ",") {
		if r == "" {
			continue
		}
		kv := strings.SplitN(r, "=", 2)
		d, _ := filepath.Abs(kv[1])
		roots = append(roots, rootMap{kv[0], d})
	}
	cfg := &packages.Config{
		Mode: packages.NeedName | packages.NeedFiles | packages.NeedCompiledGoFiles | packages.NeedSyntax | packages.NeedTypes | packages.NeedTypesInfo | packages.NeedImports | packages.NeedDeps,
		Dir:  *dir,
		Env:  append(os.Environ(), "GOFLAGS=-mod=mod", "GOPROXY=off"),
	}
	pkgs, err := packages.Load(cfg, flag.Args()...)
	if err != nil {
		fatalf("load: %v", err)
	}
	total := map[string]int{}
	nfiles := 0
	for _, p := range pkgs {
		if len(p.Errors) > 0 {
			fatalf("package errors %s: %v", p.PkgPath, p.Errors)
		}
		if strings.HasSuffix(p.PkgPath, "/verifsimrt") {
			continue
		}
		for i, f := range p.Syntax {
			name := p.CompiledGoFiles[i]
			if strings.HasSuffix(name, "_test.go") {
				continue
			}
			if hasDirective(f, "verif:noinstr") {
				continue
			}
			rel := name
			for _, r := range roots {
				if strings.HasPrefix(name, r.dir+string(filepath.Separator)) {
					rr, _ := filepath.Rel(r.dir, name)
					rel = r.prefix + rr
					break
				}
			}
			rw := &rewriter{pkg: p, fset: p.Fset, file: f, relname: rel, commRecv: map[ast.Node]bool{}, commSend: map[ast.Node]bool{}, chanRange: map[ast.Node]bool{}, counts: total}
			rw.run()
			if rw.used {
				nfiles++
				var buf bytes.Buffer
				if err := printer.Fprint(&buf, p.Fset, f); err != nil {
					fatalf("print %s: %v", name, err)
				}
				if err := os.WriteFile(name, buf.Bytes(), 0o644); err != nil {
					fatalf("write %s: %v", name, err)
				}
			}
		}
	}
	stats := map[string]any{"rewrites": total, "files": nfiles, "packages": len(pkgs), "probe_anchors": anchorsFound, "map_key_types": mapKeyTypes}
	for _, a := range probeAnchors {
		if _, ok := anchorsFound[a.field]; !ok {
			anchorsFound[a.field] = 0
		}
	}
	b, _ := json.MarshalIndent(stats, "", " ")
	if *statsFile != "" {
		_ = os.WriteFile(*statsFile, b, 0o644)
	}
	keys := make([]string, 0, len(total))
	for k := range total {
		keys = append(keys, k)
	}
	sort.Strings(keys)
	fmt.Printf("instr: %d packages, %d files rewritten:", len(pkgs), nfiles)
	for _, k := range keys {
		fmt.Printf(" %s=%d", k, total[k])
	}
	fmt.Println()
}

func hasDirective(f *ast.File, d string) bool {
	for _, cg := range f.Comments {
		for _, c := range cg.List {
			if strings.TrimSpace(c.Text) == "//"+d {
				return true
			}
		}
	}
	return false
}

func (rw *rewriter) site(n ast.Node) ast.Expr {
	p := rw.fset.Position(n.Pos())
	return &ast.BasicLit{Kind: token.STRING, Value: fmt.Sprintf("%q", fmt.Sprintf("%s:%d", rw.relname, p.Line))}
}

func (rw *rewriter) rtcall(fn string, args ...ast.Expr) *ast.CallExpr {
	rw.used = true
	rw.counts[fn]++
	return &ast.CallExpr{Fun: &ast.SelectorExpr{X: ast.NewIdent(rt), Sel: ast.NewIdent(fn)}, Args: args}
}

func unparen(e ast.Expr) ast.Expr {
	for {
		p, ok := e.(*ast.ParenExpr)
		if !ok {
			return e
		}
		e = p.X
	}
}

func (rw *rewriter) run() {
	// keep only comments before the package clause (build tags, licence):
	// free-floating comments would be misplaced by the printer after rewriting
	var keep []*ast.CommentGroup
	for _, cg := range rw.file.Comments {
		if cg.End() < rw.file.Package {
			keep = append(keep, cg)
		}
	}
	rw.file.Comments = keep
	ast.Inspect(rw.file, func(n ast.Node) bool {
		switch x := n.(type) {
		case *ast.FuncDecl:
			x.Doc = nil
		case *ast.GenDecl:
			x.Doc = nil
		case *ast.Field:
			x.Doc, x.Comment = nil, nil
		case *ast.ValueSpec:
			x.Doc, x.Comment = nil, nil
		case *ast.TypeSpec:
			x.Doc, x.Comment = nil, nil
		case *ast.ImportSpec:
			x.Doc, x.Comment = nil, nil
		}
		return true
	})
	// collect comm clause operations: they are handled by the select rewrite
	ast.Inspect(rw.file, func(n ast.Node) bool {
		if ls, ok := n.(*ast.LabeledStmt); ok {
			if _, isSel := ls.Stmt.(*ast.SelectStmt); isSel {
				fatalf("%s: labelled select is not supported", rw.fset.Position(n.Pos()))
			}
		}
		cc, ok := n.(*ast.CommClause)
		if !ok || cc.Comm == nil {
			return true
		}
		switch c := cc.Comm.(type) {
		case *ast.SendStmt:
			rw.commSend[c] = true
		case *ast.ExprStmt:
			rw.commRecv[unparen(c.X)] = true
		case *ast.AssignStmt:
			rw.commRecv[unparen(c.Rhs[0])] = true
		}
		return true
	})
	astutil.Apply(rw.file, rw.pre, rw.post)
	if rw.used {
		astutil.AddImport(rw.fset, rw.file, rtPath)
		for _, imp := range rw.file.Imports {
			path := strings.Trim(imp.Path.Value, `"`)
			if path == rtPath || (imp.Name != nil && (imp.Name.Name == "_" || imp.Name.Name == ".")) {
				continue
			}
			name := ""
			if imp.Name != nil {
				name = imp.Name.Name
			} else if ip := rw.pkg.Imports[path]; ip != nil {
				name = ip.Name
			}
			if name == "" {
				continue
			}
			if !usesName(rw.file, name) {
				if imp.Name != nil {
					astutil.DeleteNamedImport(rw.fset, rw.file, imp.Name.Name, path)
				} else {
					astutil.DeleteImport(rw.fset, rw.file, path)
				}
			}
		}
	}
}

// usesName reports whether the file still refers to the imported package name.
func usesName(f *ast.File, name string) bool {
	used := false
	ast.Inspect(f, func(n ast.Node) bool {
		if se, ok := n.(*ast.SelectorExpr); ok {
			if id, ok := se.X.(*ast.Ident); ok && id.Name == name && id.Obj == nil {
				used = true
			}
		}
		return !used
	})
	return used
}

func (rw *rewriter) addrOf(x ast.Expr) ast.Expr {
	t := rw.pkg.TypesInfo.TypeOf(x)
	if _, isPtr := t.Underlying().(*types.Pointer); isPtr {
		return x
	}
	return &ast.UnaryExpr{Op: token.AND, X: x}
}

func namedOf(t types.Type) (pkg, name string) {
	if p, ok := t.(*types.Pointer); ok {
		t = p.Elem()
	}
	if n, ok := t.(*types.Named); ok && n.Obj().Pkg() != nil {
		return n.Obj().Pkg().Path(), n.Obj().Name()
	}
	return "", ""
}

// pre handles constructs that must be seen before their children are rewritten.
func (rw *rewriter) pre(c *astutil.Cursor) bool {
	switch n := c.Node().(type) {
	case *ast.RangeStmt:
		t := rw.pkg.TypesInfo.TypeOf(n.X)
		if t == nil {
			return true
		}
		switch u := t.Underlying().(type) {
		case *types.Chan:
			if _, lab := c.Parent().(*ast.LabeledStmt); lab {
				fatalf("%s: labelled range over channel is not supported", rw.fset.Position(n.Pos()))
			}
			rw.chanRange[n] = true
		case *types.Map:
			rw.mapRange(n, u)
		}
	}
	return true
}

func exprString(fset *token.FileSet, e ast.Expr) string {
	var b bytes.Buffer
	_ = printer.Fprint(&b, fset, e)
	return b.String()
}

// mapRange rewrites `for k, v := range m` to iterate a tape-chosen order.
func (rw *rewriter) mapRange(n *ast.RangeStmt, mt *types.Map) {
	switch unparen(n.X).(type) {
	case *ast.Ident, *ast.SelectorExpr, *ast.IndexExpr:
	default:
		fatalf("%s: range over a map expression with possible side effects (%T)", rw.fset.Position(n.Pos()), n.X)
	}
	mapKeyTypes[mt.Key().String()]++
	isBlank := func(e ast.Expr) bool {
		if e == nil {
			return true
		}
		id, ok := e.(*ast.Ident)
		return ok && id.Name == "_"
	}
	mexpr := n.X
	keyVar := ast.NewIdent("__mk")
	var pre []ast.Stmt
	if !isBlank(n.Value) {
		okVar := ast.NewIdent("__mok")
		// v, __mok := m[__mk]; if !__mok { continue }
		var lhsV ast.Expr = n.Value
		tok := n.Tok
		if tok == token.ASSIGN {
			// assignment form: use a temp to keep "ok" a new variable
			tmp := ast.NewIdent("__mv")
			pre = append(pre, &ast.AssignStmt{Lhs: []ast.Expr{tmp, okVar}, Tok: token.DEFINE, Rhs: []ast.Expr{&ast.IndexExpr{X: mexpr, Index: keyVar}}})
			pre = append(pre, &ast.IfStmt{Cond: &ast.UnaryExpr{Op: token.NOT, X: okVar}, Body: &ast.BlockStmt{List: []ast.Stmt{&ast.BranchStmt{Tok: token.CONTINUE}}}})
			pre = append(pre, &ast.AssignStmt{Lhs: []ast.Expr{lhsV}, Tok: token.ASSIGN, Rhs: []ast.Expr{tmp}})
		} else {
			pre = append(pre, &ast.AssignStmt{Lhs: []ast.Expr{lhsV, okVar}, Tok: token.DEFINE, Rhs: []ast.Expr{&ast.IndexExpr{X: mexpr, Index: keyVar}}})
			pre = append(pre, &ast.IfStmt{Cond: &ast.UnaryExpr{Op: token.NOT, X: okVar}, Body: &ast.BlockStmt{List: []ast.Stmt{&ast.BranchStmt{Tok: token.CONTINUE}}}})
			pre = append(pre, &ast.AssignStmt{Lhs: []ast.Expr{ast.NewIdent("_")}, Tok: token.ASSIGN, Rhs: []ast.Expr{lhsV}})
		}
	} else {
		// skip keys deleted during the iteration, as the original loop would
		okVar := ast.NewIdent("__mok")
		pre = append(pre, &ast.AssignStmt{Lhs: []ast.Expr{ast.NewIdent("_"), okVar}, Tok: token.DEFINE, Rhs: []ast.Expr{&ast.IndexExpr{X: mexpr, Index: keyVar}}})
		pre = append(pre, &ast.IfStmt{Cond: &ast.UnaryExpr{Op: token.NOT, X: okVar}, Body: &ast.BlockStmt{List: []ast.Stmt{&ast.BranchStmt{Tok: token.CONTINUE}}}})
	}
	if !isBlank(n.Key) {
		tok := n.Tok
		pre = append([]ast.Stmt{&ast.AssignStmt{Lhs: []ast.Expr{n.Key}, Tok: tok, Rhs: []ast.Expr{keyVar}}}, pre...)
		if tok == token.DEFINE {
			pre = append(pre, &ast.AssignStmt{Lhs: []ast.Expr{ast.NewIdent("_")}, Tok: token.ASSIGN, Rhs: []ast.Expr{n.Key}})
		}
	}
	n.Key = ast.NewIdent("_")
	n.Value = keyVar
	n.Tok = token.DEFINE
	n.X = rw.rtcall("MapKeys", rw.site(n), mexpr)
	n.Body.List = append(pre, n.Body.List...)
}

func (rw *rewriter) post(c *astutil.Cursor) bool {
	switch n := c.Node().(type) {
	case *ast.GoStmt:
		c.Replace(rw.goStmt(n))
	case *ast.SelectStmt:
		c.Replace(rw.selectStmt(n))
	case *ast.RangeStmt:
		if rw.chanRange[n] {
			c.Replace(rw.chanRangeStmt(n))
		}
	case *ast.SendStmt:
		if rw.commSend[n] {
			return true
		}
		c.Replace(&ast.BlockStmt{List: []ast.Stmt{
			&ast.ExprStmt{X: rw.rtcall("Yield", rw.site(n))},
			n,
			&ast.ExprStmt{X: rw.rtcall("PostOp", rw.site(n))},
		}})
	case *ast.UnaryExpr:
		if n.Op != token.ARROW || rw.commRecv[n] {
			return true
		}
		if as, ok := c.Parent().(*ast.AssignStmt); ok && len(as.Lhs) == 2 && len(as.Rhs) == 1 {
			c.Replace(rw.rtcall("Recv2", rw.site(n), n.X))
		} else if vs, ok := c.Parent().(*ast.ValueSpec); ok && len(vs.Names) == 2 {
			c.Replace(rw.rtcall("Recv2", rw.site(n), n.X))
		} else {
			c.Replace(rw.rtcall("Recv", rw.site(n), n.X))
		}
	case *ast.CallExpr:
		if r := rw.call(n); r != nil {
			c.Replace(r)
		}
	case *ast.Ident:
		rw.knobUse(c, n)
	case *ast.AssignStmt:
		rw.probe(c, n.Lhs)
	case *ast.IncDecStmt:
		rw.probe(c, []ast.Expr{n.X})
	}
	return true
}

func (rw *rewriter) knobUse(c *astutil.Cursor, id *ast.Ident) {
	ks := knobs[rw.pkg.PkgPath]
	if ks == nil || !ks[id.Name] {
		return
	}
	obj, ok := rw.pkg.TypesInfo.Uses[id].(*types.Const)
	if !ok || obj.Pkg() == nil || obj.Pkg().Path() != rw.pkg.PkgPath {
		return
	}
	if _, isSel := c.Parent().(*ast.SelectorExpr); isSel {
		return
	}
	if call, ok := c.Parent().(*ast.CallExpr); ok {
		if se, ok := call.Fun.(*ast.SelectorExpr); ok && se.Sel.Name == "KnobInt" {
			return
		}
	}
	c.Replace(rw.rtcall("KnobInt", &ast.BasicLit{Kind: token.STRING, Value: fmt.Sprintf("%q", id.Name)}, ast.NewIdent(id.Name)))
}

func (rw *rewriter) probe(c *astutil.Cursor, lhs []ast.Expr) {
	for _, a := range probeAnchors {
		if a.pkg != rw.pkg.PkgPath {
			continue
		}
		for _, l := range lhs {
			se, ok := unparen(l).(*ast.SelectorExpr)
			if !ok || se.Sel.Name != a.field {
				continue
			}
			if c.Index() < 0 {
				continue // not in a statement list
			}
			x := exprString(rw.fset, se.X)
			src := strings.ReplaceAll(a.tmpl, "X.", x+".")
			stmts := parseStmts(src)
			c.InsertAfter(stmts[0])
			rw.used = true
			rw.counts["Probe"]++
			anchorsFound[a.field]++
		}
	}
}

func (rw *rewriter) call(n *ast.CallExpr) ast.Expr {
	info := rw.pkg.TypesInfo
	if id, ok := n.Fun.(*ast.Ident); ok && id.Name == "close" {
		if _, isB := info.Uses[id].(*types.Builtin); isB {
			return rw.rtcall("Close", rw.site(n), n.Args[0])
		}
		return nil
	}
	sel, ok := n.Fun.(*ast.SelectorExpr)
	if !ok {
		return nil
	}
	// package-level functions
	if fn, ok := info.Uses[sel.Sel].(*types.Func); ok && fn.Pkg() != nil {
		if s := info.Selections[sel]; s == nil {
			switch fn.Pkg().Path() + "." + fn.Name() {
			case "time.Sleep":
				return rw.rtcall("Sleep", rw.site(n), n.Args[0])
			case "time.AfterFunc":
				return rw.rtcall("AfterFunc", rw.site(n), n.Args[0], n.Args[1])
			case "context.WithTimeout":
				return rw.rtcall("CtxWithTimeout", rw.site(n), n.Args[0], n.Args[1])
			case "context.WithDeadline":
				return rw.rtcall("CtxWithDeadline", rw.site(n), n.Args[0], n.Args[1])
			case "math/rand/v2.Int64N":
				return rw.rtcall("RandInt64N", n.Fun, n.Args[0])
			}
			if fn.Pkg().Path() == "math/rand/v2" || fn.Pkg().Path() == "math/rand" {
				fatalf("%s: unsupported %s.%s", rw.fset.Position(n.Pos()), fn.Pkg().Path(), fn.Name())
			}
			if fn.Pkg().Path() == "sync/atomic" && !skipAtomicsFiles[rw.relname] {
				fatalf("%s: unsupported package-level sync/atomic.%s", rw.fset.Position(n.Pos()), fn.Name())
			}
			return nil
		}
	}
	s := info.Selections[sel]
	if s == nil || s.Kind() != types.MethodVal {
		return nil
	}
	fn, ok := s.Obj().(*types.Func)
	if !ok || fn.Pkg() == nil {
		return nil
	}
	m := fn.Name()
	switch fn.Pkg().Path() {
	case "sync/atomic":
		if skipAtomicsFiles[strings.TrimPrefix(rw.relname, "repo/")] {
			return nil
		}
		if len(s.Index()) != 1 {
			fatalf("%s: embedded atomic method", rw.fset.Position(n.Pos()))
		}
		recv := rw.addrOf(sel.X)
		switch m {
		case "Load", "Store", "Add", "Swap", "CompareAndSwap", "And", "Or":
			// x.M(args) -> verifsimrt.Pre(site, &x).M(args): yield, then the operation
			n.Fun = &ast.SelectorExpr{X: rw.rtcall("Pre", rw.site(n), recv), Sel: sel.Sel}
			return nil
		}
		fatalf("%s: unsupported atomic method %s", rw.fset.Position(n.Pos()), m)
	case "sync":
	default:
		return nil
	}
	if len(s.Index()) != 1 {
		fatalf("%s: embedded sync method", rw.fset.Position(n.Pos()))
	}
	_, recvName := namedOf(s.Recv())
	recv := rw.addrOf(sel.X)
	switch recvName {
	case "Mutex":
		switch m {
		case "Lock", "Unlock", "TryLock":
			return rw.rtcall(m, rw.site(n), recv)
		}
	case "RWMutex":
		switch m {
		case "Lock", "Unlock", "RLock", "RUnlock":
			return rw.rtcall("RW"+m, rw.site(n), recv)
		}
		fatalf("%s: unsupported RWMutex.%s", rw.fset.Position(n.Pos()), m)
	case "Once":
		if m == "Do" {
			return rw.rtcall("OnceDo", rw.site(n), recv, n.Args[0])
		}
	case "WaitGroup":
		switch m {
		case "Wait":
			return rw.rtcall("WgWait", rw.site(n), recv)
		case "Go":
			return rw.rtcall("WgGo", rw.site(n), recv, n.Args[0])
		}
	case "Pool":
		switch m {
		case "Get":
			return rw.rtcall("PoolGet", rw.site(n), recv)
		case "Put":
			return rw.rtcall("PoolPut", rw.site(n), recv, n.Args[0])
		}
	case "Cond":
		fatalf("%s: sync.Cond is not supported", rw.fset.Position(n.Pos()))
	}
	return nil
}

// chanRangeStmt rewrites `for v := range ch { body }`.
func (rw *rewriter) chanRangeStmt(n *ast.RangeStmt) ast.Stmt {
	rc := ast.NewIdent("__rc")
	okv := ast.NewIdent("__rok")
	var lhs ast.Expr = ast.NewIdent("_")
	tok := token.DEFINE
	if n.Key != nil {
		if id, ok := n.Key.(*ast.Ident); !ok || id.Name != "_" {
			lhs = n.Key
			if n.Tok == token.ASSIGN {
				tok = token.ASSIGN
			}
		}
	}
	var recv ast.Stmt
	if tok == token.ASSIGN {
		// v, __rok = Recv2(...) needs __rok declared first
		recv = &ast.BlockStmt{}
		fatalf("%s: assignment form of range over channel is not supported", rw.fset.Position(n.Pos()))
	} else {
		recv = &ast.AssignStmt{Lhs: []ast.Expr{lhs, okv}, Tok: token.DEFINE, Rhs: []ast.Expr{rw.rtcall("Recv2", rw.site(n), rc)}}
	}
	brk := &ast.IfStmt{Cond: &ast.UnaryExpr{Op: token.NOT, X: okv}, Body: &ast.BlockStmt{List: []ast.Stmt{&ast.BranchStmt{Tok: token.BREAK}}}}
	body := append([]ast.Stmt{recv, brk}, n.Body.List...)
	return &ast.BlockStmt{List: []ast.Stmt{
		&ast.AssignStmt{Lhs: []ast.Expr{rc}, Tok: token.DEFINE, Rhs: []ast.Expr{n.X}},
		&ast.ForStmt{Body: &ast.BlockStmt{List: body}},
	}}
}

func (rw *rewriter) goStmt(n *ast.GoStmt) ast.Stmt {
	call := n.Call
	if fl, ok := call.Fun.(*ast.FuncLit); ok && len(call.Args) == 0 {
		return &ast.ExprStmt{X: rw.rtcall("Go", rw.site(n), fl)}
	}
	var stmts []ast.Stmt
	fvar := ast.NewIdent("__gof")
	stmts = append(stmts, &ast.AssignStmt{Lhs: []ast.Expr{fvar}, Tok: token.DEFINE, Rhs: []ast.Expr{call.Fun}})
	var args []ast.Expr
	for i, a := range call.Args {
		if _, isLit := a.(*ast.BasicLit); isLit {
			args = append(args, a)
			continue
		}
		v := ast.NewIdent(fmt.Sprintf("__goa%d", i))
		stmts = append(stmts, &ast.AssignStmt{Lhs: []ast.Expr{v}, Tok: token.DEFINE, Rhs: []ast.Expr{a}})
		args = append(args, v)
	}
	inner := &ast.CallExpr{Fun: fvar, Args: args, Ellipsis: call.Ellipsis}
	fl := &ast.FuncLit{Type: &ast.FuncType{Params: &ast.FieldList{}}, Body: &ast.BlockStmt{List: []ast.Stmt{&ast.ExprStmt{X: inner}}}}
	stmts = append(stmts, &ast.ExprStmt{X: rw.rtcall("Go", rw.site(n), fl)})
	return &ast.BlockStmt{List: stmts}
}

func parseStmts(src string) []ast.Stmt {
	fs := token.NewFileSet()
	f, err := parser.ParseFile(fs, "x.go", "package p\nfunc _() {\n"+src+"\n}", 0)
	if err != nil {
		panic(fmt.Sprintf("%v\n%s", err, src))
	}
	return f.Decls[0].(*ast.FuncDecl).Body.List
}

func (rw *rewriter) selectStmt(n *ast.SelectStmt) ast.Stmt {
	rw.used = true
	rw.counts["select"]++
	rw.nsel++
	u := fmt.Sprintf("%d", rw.nsel)
	type cas struct {
		cc    *ast.CommClause
		send  *ast.SendStmt
		recvX ast.Expr
		lhs   []ast.Expr
		tok   token.Token
	}
	var cases []cas
	var dflt *ast.CommClause
	for _, s := range n.Body.List {
		cc := s.(*ast.CommClause)
		if cc.Comm == nil {
			dflt = cc
			continue
		}
		c := cas{cc: cc}
		switch cm := cc.Comm.(type) {
		case *ast.SendStmt:
			c.send = cm
		case *ast.ExprStmt:
			ue, ok := unparen(cm.X).(*ast.UnaryExpr)
			if !ok || ue.Op != token.ARROW {
				fatalf("%s: unknown comm clause shape", rw.fset.Position(cm.Pos()))
			}
			c.recvX = ue.X
		case *ast.AssignStmt:
			ue, ok := unparen(cm.Rhs[0]).(*ast.UnaryExpr)
			if !ok || ue.Op != token.ARROW {
				fatalf("%s: unknown comm clause shape", rw.fset.Position(cm.Pos()))
			}
			c.recvX = ue.X
			c.lhs = cm.Lhs
			c.tok = cm.Tok
		default:
			fatalf("%s: unknown comm clause shape %T", rw.fset.Position(cc.Pos()), cc.Comm)
		}
		cases = append(cases, c)
	}
	k := len(cases)
	exprs := map[string]ast.Expr{}
	bodies := map[string][]ast.Stmt{}
	var b strings.Builder
	w := func(f string, a ...any) { fmt.Fprintf(&b, f+"\n", a...) }
	w("{")
	for i, c := range cases {
		if c.send != nil {
			exprs[fmt.Sprintf("PHC%d", i)] = c.send.Chan
			exprs[fmt.Sprintf("PHV%d", i)] = c.send.Value
			w("__c%s_%d := PHC%d", u, i, i)
			w("__s%s_%d := %s.ZeroSend(__c%s_%d)", u, i, rt, u, i)
			w("__s%s_%d = PHV%d", u, i, i)
		} else {
			exprs[fmt.Sprintf("PHC%d", i)] = c.recvX
			w("__c%s_%d := PHC%d", u, i, i)
			if len(c.lhs) > 0 {
				w("__r%s_%d, __ok%s_%d := %s.ZeroOf(__c%s_%d)", u, i, u, i, rt, u, i)
				w("_, _ = __r%s_%d, __ok%s_%d", u, i, u, i)
			}
		}
	}
	w("__idx%s := -1", u)
	exprs["PHSITE"] = rw.site(n)
	w("__sel%s := %s.SelectBegin(PHSITE, %d)", u, rt, k)
	pollCase := func(i int, c cas) string {
		switch {
		case c.send != nil:
			return fmt.Sprintf("case __c%s_%d <- __s%s_%d: __idx%s = %d", u, i, u, i, u, i)
		case len(c.lhs) > 0:
			return fmt.Sprintf("case __r%s_%d, __ok%s_%d = <-__c%s_%d: __idx%s = %d", u, i, u, i, u, i, u, i)
		default:
			return fmt.Sprintf("case <-__c%s_%d: __idx%s = %d", u, i, u, i)
		}
	}
	if k > 0 {
		w("for __i := 0; __i < %d && __idx%s < 0; __i++ {", k, u)
		w("switch __sel%s.Order(__i) {", u)
		for i, c := range cases {
			w("case %d:\nselect {\n%s\ndefault:\n}", i, pollCase(i, c))
		}
		w("}\n}")
	}
	if dflt == nil {
		w("if __idx%s < 0 {", u)
		w("select {")
		for i, c := range cases {
			w("%s", pollCase(i, c))
		}
		w("}")
		w("__sel%s.Woke(__idx%s)", u, u)
		w("}")
	}
	w("__sel%s.End(__idx%s)", u, u)
	w("switch __idx%s {", u)
	for i, c := range cases {
		w("case %d:", i)
		if len(c.lhs) > 0 {
			var l, r []string
			for j, e := range c.lhs {
				if id, ok := e.(*ast.Ident); ok && id.Name == "_" {
					continue
				}
				exprs[fmt.Sprintf("PHL%d_%d", i, j)] = e
				l = append(l, fmt.Sprintf("PHL%d_%d", i, j))
				if j == 0 {
					r = append(r, fmt.Sprintf("__r%s_%d", u, i))
				} else {
					r = append(r, fmt.Sprintf("__ok%s_%d", u, i))
				}
			}
			if len(l) > 0 {
				w("%s %s %s", strings.Join(l, ", "), c.tok.String(), strings.Join(r, ", "))
			}
		}
		bodies[fmt.Sprintf("PHB%d", i)] = c.cc.Body
		w("PHB%d()", i)
	}
	if dflt != nil {
		w("default:")
		bodies["PHBD"] = dflt.Body
		w("PHBD()")
	} else {
		w("default:\npanic(\"verifsimrt: unreachable select index\")")
	}
	w("}")
	w("}")
	stmts := parseStmts(b.String())
	blk := stmts[0].(*ast.BlockStmt)
	astutil.Apply(blk, nil, func(c *astutil.Cursor) bool {
		switch x := c.Node().(type) {
		case *ast.Ident:
			if e, ok := exprs[x.Name]; ok {
				c.Replace(e)
			}
		case *ast.ExprStmt:
			if call, ok := x.X.(*ast.CallExpr); ok {
				if id, ok := call.Fun.(*ast.Ident); ok {
					if body, ok := bodies[id.Name]; ok {
						c.Replace(&ast.BlockStmt{List: body})
					}
				}
			}
		}
		return true
	})
	return blk
}
