package sim

import (
	"encoding/binary"
	"fmt"
	"time"

	"github.com/blinklabs-io/gouroboros/muxer"
	"github.com/blinklabs-io/gouroboros/protocol"
	"github.com/blinklabs-io/gouroboros/protocol/txsubmission"
	rt "github.com/blinklabs-io/gouroboros/verifsimrt"
)

// Engine-level harness: real protocol.Protocol engines driven with opaque
// messages, so that any state map can be walked without the per-protocol
// clients/servers.

// rawMsg is an opaque mini-protocol message: CBOR [type, tag, bstr(fill)].
type rawMsg struct {
	typ  uint8
	data []byte
}

func (m *rawMsg) SetCbor(b []byte) { m.data = b }
func (m *rawMsg) Cbor() []byte     { return m.data }
func (m *rawMsg) Type() uint8      { return m.typ }

func cborUint(b []byte, major byte, v uint64) []byte {
	switch {
	case v < 24:
		return append(b, major<<5|byte(v))
	case v < 1<<8:
		return append(b, major<<5|24, byte(v))
	case v < 1<<16:
		return append(b, major<<5|25, byte(v>>8), byte(v))
	case v < 1<<32:
		return append(b, major<<5|26, byte(v>>24), byte(v>>16), byte(v>>8), byte(v))
	}
	b = append(b, major<<5|27)
	var x [8]byte
	binary.BigEndian.PutUint64(x[:], v)
	return append(b, x[:]...)
}

// mkRawBytes builds [typ, tag, bstr] whose total encoded length is exactly
// size when size >= 12 (otherwise the shortest encoding).
func mkRawBytes(typ uint8, tag uint32, size int) []byte {
	b := []byte{0x83}
	b = cborUint(b, 0, uint64(typ))
	b = append(b, 0x1a, byte(tag>>24), byte(tag>>16), byte(tag>>8), byte(tag))
	head := len(b)
	fill := 0
	if size > head+1 {
		// choose fill so that head + bstr header + fill == size
		for _, hl := range []int{1, 2, 3, 5} {
			f := size - head - hl
			if f < 0 {
				continue
			}
			ok := (hl == 1 && f < 24) || (hl == 2 && f >= 24 && f < 256) || (hl == 3 && f >= 256 && f < 65536) || (hl == 5 && f >= 65536)
			if ok {
				fill = f
				break
			}
		}
	}
	b = cborUint(b, 2, uint64(fill))
	x := tag*2654435761 + uint32(typ)
	for i := 0; i < fill; i++ {
		x = x*1664525 + 1013904223
		b = append(b, byte(x>>24))
	}
	return b
}

func mkRaw(typ uint8, tag uint32, size int) *rawMsg {
	return &rawMsg{typ: typ, data: mkRawBytes(typ, tag, size)}
}

func rawFromCbor(msgType uint, data []byte) (protocol.Message, error) {
	return &rawMsg{typ: uint8(msgType), data: append([]byte(nil), data...)}, nil
}

func rawTag(data []byte) uint32 {
	// [typ(1..2 bytes), 0x1a tag4 ...]
	for i := 1; i < 4 && i+4 < len(data); i++ {
		if data[i] == 0x1a {
			return binary.BigEndian.Uint32(data[i+1:])
		}
	}
	return 0
}

// mkMsg builds the message for a spec transition: opaque, except where the
// repository's state map inspects the message (tx-submission RequestTxIds).
func mkMsg(sp *specProto, t specTrans, tag uint32, size int) protocol.Message {
	if sp == specTxSubmission && t.Msg == 0 {
		m := txsubmission.NewMsgRequestTxIds(t.Variant == 1, uint16(tag&0xff), uint16(1+tag>>8&0xff))
		return m
	}
	return mkRaw(t.Msg, tag, size)
}

func fromCborFor(sp *specProto) protocol.MessageFromCborFunc {
	if sp == specTxSubmission {
		return func(msgType uint, data []byte) (protocol.Message, error) {
			if msgType == 0 {
				return txsubmission.NewMsgFromCbor(msgType, data)
			}
			return rawFromCbor(msgType, data)
		}
	}
	return rawFromCbor
}

type handledMsg struct {
	Typ  uint8
	Data []byte
	Seq  uint64
}

// endpoint is one real protocol engine plus its recorded observations.
type endpoint struct {
	name    string
	role    protocol.ProtocolRole
	p       *protocol.Protocol
	errCh   chan error
	errs    []error
	errSeq  []uint64
	handled []handledMsg
	states  []string // probe: state names after every transition
	onMsg   func(m protocol.Message) error
	done    bool
}

var endpoints map[string]*endpoint

// installProbes routes the instrumenter's probe anchors to endpoint records.
func installProbes(s *rt.Sim) {
	endpoints = map[string]*endpoint{}
	s.SetProbe(func(name string, args ...any) {
		if name != "state" {
			return
		}
		ep := endpoints[fmt.Sprintf("%v/%v", args[0], args[1])]
		if ep != nil {
			ep.states = append(ep.states, args[3].(string))
		}
	})
}

func newEndpoint(name string, m *muxer.Muxer, id uint16, sm protocol.StateMap, init protocol.State, role protocol.ProtocolRole, mode protocol.ProtocolMode, fromCbor protocol.MessageFromCborFunc) *endpoint {
	ep := &endpoint{name: name, role: role, errCh: make(chan error, 10)}
	cfg := protocol.ProtocolConfig{
		Name:                name,
		ProtocolId:          id,
		ErrorChan:           ep.errCh,
		Muxer:               m,
		Mode:                mode,
		Role:                role,
		MessageHandlerFunc:  func(msg protocol.Message) error { return ep.handle(msg) },
		MessageFromCborFunc: fromCbor,
		StateMap:            sm,
		InitialState:        init,
	}
	ep.p = protocol.New(cfg)
	if endpoints != nil {
		endpoints[fmt.Sprintf("%v/%v", name, int(role))] = ep
	}
	// the application reads errors for as long as it lives, independently of
	// DoneChan (an error may be published just after the loops have ended)
	go func() {
		for e := range ep.errCh {
			ep.errs = append(ep.errs, e)
			ep.errSeq = append(ep.errSeq, rt.Stamp())
			rt.Log("%s error: %v", name, e)
		}
	}()
	go func() {
		<-ep.p.DoneChan()
		ep.done = true
	}()
	return ep
}

func (ep *endpoint) handle(msg protocol.Message) error {
	ep.handled = append(ep.handled, handledMsg{Typ: msg.Type(), Data: append([]byte(nil), msg.Cbor()...), Seq: rt.Stamp()})
	if ep.onMsg != nil {
		return ep.onMsg(msg)
	}
	return nil
}

// enginePair is two real muxers over simnet.
type enginePair struct {
	net     *Pair
	mA, mB  *muxer.Muxer
	merrA   []error
	merrB   []error
	stopped bool
}

func newEnginePair(cfg *NetCfg) *enginePair {
	e := &enginePair{net: NewPair(cfg)}
	e.mA = muxer.New(e.net.A)
	e.mB = muxer.New(e.net.B)
	go func() {
		for err := range e.mA.ErrorChan() {
			e.merrA = append(e.merrA, err)
			rt.Log("muxer A error: %v", err)
		}
	}()
	go func() {
		for err := range e.mB.ErrorChan() {
			e.merrB = append(e.merrB, err)
			rt.Log("muxer B error: %v", err)
		}
	}()
	return e
}

func (e *enginePair) start() {
	e.mA.Start()
	e.mB.Start()
	// background traffic in both directions, as a real connection's keep-alive
	// protocol would provide: keeps the muxers' 120 s read deadline quiet
	for side, m := range []*muxer.Muxer{e.mA, e.mB} {
		sendCh, _, doneCh := m.RegisterProtocol(0x7001, muxer.ProtocolRoleInitiator)
		other := e.mB
		if side == 1 {
			other = e.mA
		}
		_, rc, _ := other.RegisterProtocol(0x7001, muxer.ProtocolRoleResponder)
		if sendCh == nil || rc == nil {
			continue
		}
		go func() {
			for range rc {
			}
		}()
		go func() {
			for !e.stopped {
				select {
				case sendCh <- muxer.NewSegment(0x7001, []byte{0}, false):
				case <-doneCh:
					return
				}
				sleep(40 * time.Second)
			}
		}()
	}
}

// deadlineFired reports whether a muxer read deadline expired (a legitimate
// connection end after 120 s without bytes).
func (e *enginePair) deadlineFired() bool { return e.net.A.Deadline+e.net.B.Deadline > 0 }

func (e *enginePair) stop() {
	e.stopped = true
	e.mA.Stop()
	e.mB.Stop()
}

// planStep is one message of a pre-planned conforming conversation.
type planStep struct {
	Sender int // agClient / agServer
	T      specTrans
	From   string
	Tag    uint32
	Size   int
}

// genPlan walks the specification automaton at random.
func genPlan(sp *specProto, maxLen int, sizes func() int, allowDone bool) []planStep {
	var plan []planStep
	st := sp.Init
	for len(plan) < maxLen {
		s := sp.States[st]
		if s.Agency == agNone || len(s.Trans) == 0 {
			break
		}
		var cands []specTrans
		for _, t := range s.Trans {
			if sp.States[t.To].Agency == agNone && (!allowDone || len(plan) < maxLen/2) {
				continue
			}
			cands = append(cands, t)
		}
		if len(cands) == 0 {
			break
		}
		t := cands[pick("op", len(cands))]
		plan = append(plan, planStep{Sender: s.Agency, T: t, From: st, Tag: uint32(len(plan) + 1), Size: sizes()})
		st = t.To
	}
	return plan
}
