#!/bin/sh
# Build the framework offline from files on disk: the instrumenter, and (as a
# smoke test + cache warm-up) the instrumented harness for /repo's current tree.
set -e
cd "$(dirname "$0")"
. ./env.sh
export PATH="$(dirname "$VERIF_GO"):$PATH"
mkdir -p bin evidence replays
"$VERIF_GO" build -o bin/instr ./cmd/instr
./check build >/dev/null
echo "setup ok"
