#!/bin/bash
# seedtest.sh <seed-id> <property> <patch.diff> <demo test file> <package dir for the demo> <go test -run regexp> [extra check args]
# 1. confirms in a scratch worktree that the patch builds, the package's existing tests pass, the demo fails with it and passes without it
# 2. applies the patch to /repo, runs ./check <property>, reverts
set -u
ID=$1; PROP=$2; PATCH=$3; DEMO=$4; PKG=$5; RUN=$6; shift 6
. /verif/env.sh; export PATH=$(dirname $VERIF_GO):$PATH
WT=/tmp/wt-seed-$ID
git -C /repo worktree remove --force $WT >/dev/null 2>&1
git -C /repo worktree add -q $WT HEAD || exit 2
cd $WT
echo "--- demo WITHOUT the change"
cp $DEMO $PKG/zz_seed_demo_test.go
go test -count=1 -run "$RUN" ./$PKG/ 2>&1 | tail -3
git apply $PATCH || { echo "patch does not apply"; exit 2; }
echo "--- build + existing tests WITH the change ($PKG and ./protocol ./muxer .)"
rm $PKG/zz_seed_demo_test.go
go build ./... && go test -count=1 ./$PKG/ ./protocol/ ./muxer/ . 2>&1 | tail -5
echo "--- demo WITH the change"
cp $DEMO $PKG/zz_seed_demo_test.go
go test -count=1 -run "$RUN" ./$PKG/ 2>&1 | grep -v "^\s" | tail -6
cd /verif
git -C /repo worktree remove --force $WT
echo "--- ./check $PROP with the change applied to /repo"
git -C /repo apply $PATCH || exit 2
./check $PROP "$@" 2>&1 | grep -v "^KNOWN-FINDING\|^instr:\|^check: built" | cut -c1-330 | tail -8
git -C /repo checkout -- . ; git -C /repo status --short | head -3
