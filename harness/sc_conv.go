package sim

import (
	"bytes"
	"fmt"
	"strings"
	"time"

	"github.com/blinklabs-io/gouroboros/protocol"
	rt "github.com/blinklabs-io/gouroboros/verifsimrt"
)

// Scenario CONV (C12): conforming conversations over every state map, with
// client pipelining, checked against the plan (an executable model).
// Scenario MSG (C10): message sequences of all sizes through segmentation and
// reassembly on a streaming state map.

func init() {
	register(&Scenario{Name: "conv", Setup: convSetup})
	register(&Scenario{Name: "conv-neg", Setup: convNegSetup})
	register(&Scenario{Name: "msg", Setup: msgSetup})
}

// stripTimeouts copies a state map without timeouts (C14 tests those).
func stripTimeouts(m protocol.StateMap) protocol.StateMap {
	out := protocol.StateMap{}
	for _, k := range stateKeys(m) {
		e := m[k]
		e.Timeout = 0
		e.TimeoutFunc = nil
		out[k] = e
	}
	return out
}

func stateKeys(m protocol.StateMap) []protocol.State {
	var ks []protocol.State
	for k := range m {
		ks = append(ks, k)
	}
	for i := 1; i < len(ks); i++ {
		for j := i; j > 0 && ks[j].Id < ks[j-1].Id; j-- {
			ks[j], ks[j-1] = ks[j-1], ks[j]
		}
	}
	return ks
}

func sameStateName(spec, repo string) bool {
	return spec == repo || (strings.HasPrefix(spec, "Busy") && repo == "Busy")
}

func convSetup(s *rt.Sim, tier string) func() {
	schedCfg(s, true)
	s.Cfg.MaxSteps = 40000
	s.Cfg.MaxStall = 30 * time.Second
	s.Cfg.Horizon = 4 * time.Hour
	installProbes(s)
	return func() {
		impls := protoImpls()
		impl := impls[pick("cfg", len(impls))]
		sp := impl.Spec
		ncfg := drawNetCfg(true)
		maxLen := 2 + pick("cfg", 30)
		small := func() int { return oneOf("op", 12, 12, 40, 300, 2000) }
		plan := genPlan(sp, maxLen, small, true)
		pipelined := chance("cfg", 2, 3)
		replyInHandler := chance("cfg", 1, 2)
		ep := newEnginePair(ncfg)
		sm := stripTimeouts(impl.Map)
		init := stateByName(sm, sp.Init)
		cl := newEndpoint("A:"+impl.Label, ep.mA, impl.Id, sm, init, protocol.ProtocolRoleClient, impl.Mode, fromCborFor(sp))
		sv := newEndpoint("B:"+impl.Label, ep.mB, impl.Id, sm, init, protocol.ProtocolRoleServer, impl.Mode, fromCborFor(sp))
		msgs := make([]protocol.Message, len(plan))
		for i, st := range plan {
			msgs[i] = mkMsg(sp, st.T, st.Tag, st.Size)
			if msgs[i].Cbor() == nil {
				// real message types are encoded by the engine on enqueue
			}
		}
		// index of the next plan step each side still has to send
		var clientIdx, serverIdx []int
		for i, st := range plan {
			if st.Sender == agClient {
				clientIdx = append(clientIdx, i)
			} else {
				serverIdx = append(serverIdx, i)
			}
		}
		sendErr := func(who string, i int, err error) {
			rt.Violate("C12/conforming-send-rejected", "%s: SendMessage of plan step %d (%s in %s) failed: %v", who, i, plan[i].T.Name, plan[i].From, err)
		}
		// server: after handling client message number k (0-based among client
		// messages), send the server messages that follow it in the plan
		srvNext := 0
		srvWork := make(chan int, 64)
		sendServerRun := func(afterPlanIdx int) {
			for srvNext < len(serverIdx) && serverIdx[srvNext] < nextClientAfter(plan, afterPlanIdx) {
				i := serverIdx[srvNext]
				srvNext++
				if err := sv.p.SendMessage(msgs[i]); err != nil {
					sendErr("server", i, err)
					return
				}
				if chance("op", 1, 8) {
					sleep(oneOf("op", time.Millisecond, 2*time.Second))
				}
			}
		}
		handledClientMsgs := 0
		sv.onMsg = func(m protocol.Message) error {
			k := handledClientMsgs
			handledClientMsgs++
			if k >= len(clientIdx) {
				return nil
			}
			if replyInHandler {
				sendServerRun(clientIdx[k])
			} else {
				srvWork <- clientIdx[k]
			}
			return nil
		}
		go func() {
			for idx := range srvWork {
				if idx < 0 {
					return
				}
				sendServerRun(idx)
			}
		}()
		handledServerMsgs := 0
		clProgress := make(chan struct{}, 256)
		cl.onMsg = func(m protocol.Message) error {
			handledServerMsgs++
			select {
			case clProgress <- struct{}{}:
			default:
			}
			if chance("op", 1, 10) {
				sleep(oneOf("op", time.Millisecond, time.Second))
			}
			return nil
		}
		cl.p.Start()
		sv.p.Start()
		ep.start()
		// client
		go func() {
			for n, i := range clientIdx {
				if !pipelined {
					// lockstep: wait until every server message that precedes step i was handled
					need := 0
					for _, j := range serverIdx {
						if j < i {
							need++
						}
					}
					for handledServerMsgs < need {
						select {
						case <-clProgress:
						case <-time.After(time.Minute):
						}
						if len(cl.errs) > 0 || len(sv.errs) > 0 {
							return
						}
					}
				}
				if err := cl.p.SendMessage(msgs[i]); err != nil {
					sendErr("client", i, err)
					return
				}
				_ = n
				if chance("op", 1, 6) {
					sleep(oneOf("op", time.Millisecond, 300*time.Millisecond, 5*time.Second))
				}
			}
		}()
		// wait for completion
		complete := func() bool {
			return len(sv.handled) == len(clientIdx) && len(cl.handled) == len(serverIdx) && len(cl.states) == len(plan)+1 && len(sv.states) == len(plan)+1
		}
		failed := func() bool {
			return len(cl.errs)+len(sv.errs)+len(ep.merrA)+len(ep.merrB) > 0
		}
		for i := 0; i < 720 && !complete() && !failed(); i++ {
			sleep(10 * time.Second)
		}
		rt.Hit("conv." + impl.Label)
		if pipelined {
			rt.Hit("conv.pipelined")
		}
		if ep.deadlineFired() {
			rt.Hit("conv.inconclusive-read-deadline")
			return
		}
		if failed() {
			rt.Violate("C12/conforming-conversation-error", "%s plan %s: client errs=%v server errs=%v muxer errs=%v %v", impl.Label, planString(plan), cl.errs, sv.errs, ep.merrA, ep.merrB)
			return
		}
		if !complete() {
			rt.Violate("C12/conversation-stuck", "%s plan %s: server handled %d/%d, client handled %d/%d, client transitions %d, server transitions %d of %d", impl.Label, planString(plan), len(sv.handled), len(clientIdx), len(cl.handled), len(serverIdx), len(cl.states)-1, len(sv.states)-1, len(plan))
			return
		}
		// handler sequences
		checkHandled := func(who string, got []handledMsg, idx []int) {
			for n, i := range idx {
				want := msgs[i].Cbor()
				if got[n].Typ != plan[i].T.Msg || !bytes.Equal(got[n].Data, want) {
					rt.Violate("C12/peer-handler-order", "%s handled message #%d type %d, plan step %d is %s", who, n, got[n].Typ, i, plan[i].T.Name)
					return
				}
			}
		}
		checkHandled("server", sv.handled, clientIdx)
		checkHandled("client", cl.handled, serverIdx)
		// wire order, exactly once
		framesAB, _ := parseFrames(ep.net.AB.Log)
		framesBA, _ := parseFrames(ep.net.BA.Log)
		checkWire := func(dir string, stream []byte, idx []int) {
			ms, rest, err := splitMessages(stream)
			if err != nil || len(rest) != 0 {
				rt.Violate("C12/wire-malformed", "%s: wire stream does not split into messages: %v rest=%d", dir, err, len(rest))
				return
			}
			if len(ms) != len(idx) {
				rt.Violate("C12/wire-count", "%s: %d messages on the wire, %d queued", dir, len(ms), len(idx))
				return
			}
			for n, i := range idx {
				if !bytes.Equal(ms[n], msgs[i].Cbor()) {
					rt.Violate("C12/wire-order", "%s: wire message #%d differs from queued message (plan step %d %s)", dir, n, i, plan[i].T.Name)
					return
				}
			}
		}
		checkWire("client->server", protoStream(framesAB, impl.Id, false), clientIdx)
		checkWire("server->client", protoStream(framesBA, impl.Id, true), serverIdx)
		// local state sequences: one change per message, in plan order
		for _, e := range []*endpoint{cl, sv} {
			if !sameStateName(sp.Init, e.states[0]) {
				rt.Violate("C12/state-sequence", "%s: initial state %s, model %s", e.name, e.states[0], sp.Init)
			}
			for i, st := range plan {
				if !sameStateName(st.T.To, e.states[i+1]) {
					rt.Violate("C12/state-sequence", "%s: after plan step %d (%s) local state is %s, model says %s; plan %s", e.name, i, st.T.Name, e.states[i+1], st.T.To, planString(plan))
					break
				}
			}
		}
		cl.p.Stop()
		sv.p.Stop()
		ep.stop()
		srvWork <- -1
	}
}

func nextClientAfter(plan []planStep, idx int) int {
	for j := idx + 1; j < len(plan); j++ {
		if plan[j].Sender == agClient {
			return j
		}
	}
	return len(plan)
}

func planString(plan []planStep) string {
	var b strings.Builder
	for i, st := range plan {
		if i > 0 {
			b.WriteByte(' ')
		}
		if st.Sender == agClient {
			b.WriteString("c:")
		} else {
			b.WriteString("s:")
		}
		b.WriteString(st.T.Name)
	}
	return b.String()
}

// convNegSetup: the first message queued is not permitted in the current state.
func convNegSetup(s *rt.Sim, tier string) func() {
	schedCfg(s, true)
	s.Cfg.MaxSteps = 20000
	s.Cfg.MaxStall = 30 * time.Second
	s.Cfg.Horizon = 2 * time.Hour
	installProbes(s)
	return func() {
		impls := protoImpls()
		impl := impls[pick("cfg", len(impls))]
		sp := impl.Spec
		ep := newEnginePair(drawNetCfg(false))
		sm := stripTimeouts(impl.Map)
		init := stateByName(sm, sp.Init)
		cl := newEndpoint("A:"+impl.Label, ep.mA, impl.Id, sm, init, protocol.ProtocolRoleClient, impl.Mode, fromCborFor(sp))
		sv := newEndpoint("B:"+impl.Label, ep.mB, impl.Id, sm, init, protocol.ProtocolRoleServer, impl.Mode, fromCborFor(sp))
		// a message of the protocol that the initial state does not permit
		var bad []specTrans
		for _, t := range sp.AllMsgs {
			ok := false
			for _, p := range sp.States[sp.Init].Trans {
				if p.Msg == t.Msg && p.Variant == t.Variant {
					ok = true
				}
			}
			if !ok {
				bad = append(bad, t)
			}
		}
		bad = append(bad, specTrans{Msg: 99, Name: "unknown-type-99"})
		t := bad[pick("op", len(bad))]
		cl.p.Start()
		sv.p.Start()
		ep.start()
		m := mkMsg(sp, t, 7, 12)
		err := cl.p.SendMessage(m)
		// more traffic afterwards from the same (confused) caller
		if chance("op", 1, 2) {
			_ = cl.p.SendMessage(mkMsg(sp, sp.States[sp.Init].Trans[0], 8, 12))
		}
		sleep(20 * time.Minute)
		rt.Hit("convneg." + impl.Label)
		if ep.deadlineFired() {
			rt.Hit("convneg.inconclusive-read-deadline")
			return
		}
		if err == nil && len(cl.errs) == 0 {
			rt.Violate("C12/forbidden-first-message-no-error", "%s: %s queued in state %s: SendMessage returned nil and no error was reported", impl.Label, t.Name, sp.Init)
		}
		framesAB, _ := parseFrames(ep.net.AB.Log)
		ms, _, _ := splitMessages(protoStream(framesAB, impl.Id, false))
		for _, w := range ms {
			if ty, e := msgType(w); e == nil && ty == int(t.Msg) && bytes.Equal(w, m.Cbor()) {
				rt.Violate("C12/forbidden-first-message-sent", "%s: %s is not permitted in state %s but was written to the wire", impl.Label, t.Name, sp.Init)
			}
		}
		if len(sv.handled) > 0 {
			rt.Violate("C12/forbidden-first-message-sent", "%s: peer handled %d messages after a forbidden first message", impl.Label, len(sv.handled))
		}
		cl.p.Stop()
		sv.p.Stop()
		ep.stop()
	}
}

// ---------------------------------------------------------------------------
// MSG

var specStream = &specProto{Name: "stream", Init: "Idle", States: map[string]specState{
	"Idle": {agClient, []specTrans{{0, 0, "Idle", "blob-c"}, {1, 0, "Busy", "turn"}, {4, 0, "Done", "done"}}},
	"Busy": {agServer, []specTrans{{2, 0, "Busy", "blob-s"}, {3, 0, "Idle", "turn-back"}}},
	"Done": {agNone, nil},
}}

var streamIdle = protocol.NewState(1, "Idle")
var streamBusy = protocol.NewState(2, "Busy")
var streamDone = protocol.NewState(3, "Done")

func streamStateMap(limit int) protocol.StateMap {
	return protocol.StateMap{
		streamIdle: {Agency: protocol.AgencyClient, PendingMessageByteLimit: limit, Transitions: []protocol.StateTransition{{MsgType: 0, NewState: streamIdle}, {MsgType: 1, NewState: streamBusy}, {MsgType: 4, NewState: streamDone}}},
		streamBusy: {Agency: protocol.AgencyServer, PendingMessageByteLimit: limit, Transitions: []protocol.StateTransition{{MsgType: 2, NewState: streamBusy}, {MsgType: 3, NewState: streamIdle}}},
		streamDone: {Agency: protocol.AgencyNone},
	}
}

var msgSmallSizes = []int{12, 13, 23, 24, 35, 255, 256, 300, 1000}
var msgEdgeSizes = []int{65520, 65527, 65535, 65536, 65537, 65545, 131060, 131070, 131071, 131080}
var msgHugeSizes = []int{200000, 1 << 20, 3 << 20}

func msgSetup(s *rt.Sim, tier string) func() {
	schedCfg(s, true)
	s.Cfg.MaxSteps = 60000
	s.Cfg.MaxStall = 30 * time.Second
	s.Cfg.Horizon = 6 * time.Hour
	installProbes(s)
	return func() {
		ncfg := drawNetCfg(true)
		if ncfg.BufCap > 0 && ncfg.BufCap < 8192 {
			ncfg.BufCap = 8192
		}
		sizeClass := weighted("cfg", 6, 3, 1) // small, edge, huge
		if tier == "quick" && sizeClass == 2 && !chance("cfg", 1, 4) {
			sizeClass = 1
		}
		size := func() int {
			switch sizeClass {
			case 1:
				if chance("op", 1, 2) {
					return oneOf("op", msgEdgeSizes...)
				}
			case 2:
				if chance("op", 1, 3) {
					return oneOf("op", msgHugeSizes...)
				}
			}
			return oneOf("op", msgSmallSizes...)
		}
		// knob (own stream): the receive states have a pending-byte limit (above every message
		// size of this run) and the handlers are slow, so that the read loop has to wait for the
		// receive queue to drain while the peer keeps sending: back-pressure must not cost a message
		limit := 0
		if sizeClass == 0 && rt.Choose("cfg.l", 3) == 2 {
			limit = []int{2000, 4096}[rt.Choose("cfg.l", 2)]
			rt.Hit("msg.receive-limit-and-slow-handler")
		}
		ep := newEnginePair(ncfg)
		sm := streamStateMap(0)
		smCl, smSv := sm, sm
		if limit > 0 {
			// the library applies a state's limit to its own send queue as well: each side
			// carries the limit only in the state in which it receives
			smCl, smSv = streamStateMap(0), streamStateMap(0)
			e := smCl[streamBusy]
			e.PendingMessageByteLimit = limit
			smCl[streamBusy] = e
			e = smSv[streamIdle]
			e.PendingMessageByteLimit = limit
			smSv[streamIdle] = e
		}
		cl := newEndpoint("A:stream", ep.mA, 0x33, smCl, streamIdle, protocol.ProtocolRoleClient, protocol.ProtocolModeNodeToNode, rawFromCbor)
		sv := newEndpoint("B:stream", ep.mB, 0x33, smSv, streamIdle, protocol.ProtocolRoleServer, protocol.ProtocolModeNodeToNode, rawFromCbor)
		rounds := 1 + pick("cfg", 3)
		maxPer := 1 + pick("cfg", 30)
		if sizeClass == 2 {
			maxPer = 1 + pick("cfg", 4)
		}
		nsenders := 1 + pick("cfg", 3)
		slowHandler := chance("cfg", 1, 3)
		if limit > 0 {
			slowHandler = true
		}
		handlerNap := func() {
			d := oneOf("op", time.Millisecond, 500*time.Millisecond, 10*time.Second)
			if limit > 0 && d > 500*time.Millisecond {
				d = 500 * time.Millisecond // the read loop polls every millisecond while it waits
			}
			sleep(d)
		}
		type sentRec struct {
			tag          uint32
			data         []byte
			task         int
			invoke, done uint64
		}
		var sentC, sentS []sentRec // in completion order per side
		turnGot := make(chan struct{}, 8)
		backGot := make(chan struct{}, 8)
		sv.onMsg = func(m protocol.Message) error {
			if slowHandler && chance("op", 1, 5) {
				handlerNap()
			}
			if m.Type() == 1 {
				turnGot <- struct{}{}
			}
			return nil
		}
		cl.onMsg = func(m protocol.Message) error {
			if slowHandler && chance("op", 1, 5) {
				handlerNap()
			}
			if m.Type() == 3 {
				backGot <- struct{}{}
			}
			return nil
		}
		cl.p.Start()
		sv.p.Start()
		ep.start()
		tagCtr := uint32(0)
		abort := false
		// burst sends n blobs of type typ from k concurrent tasks through e
		burst := func(e *endpoint, typ uint8, n, k int, rec *[]sentRec) {
			fin := make(chan struct{}, k)
			for task := 0; task < k; task++ {
				task := task
				cnt := n / k
				if task < n%k {
					cnt++
				}
				go func() {
					defer func() { fin <- struct{}{} }()
					for i := 0; i < cnt && !abort; i++ {
						tagCtr++
						tag := tagCtr
						m := mkRaw(typ, tag, size())
						inv := rt.Stamp()
						if err := e.p.SendMessage(m); err != nil {
							abort = true
							if ep.deadlineFired() {
								return
							}
							rt.Violate("C10/send-failed", "%s: SendMessage of a permitted message failed: %v", e.name, err)
							return
						}
						*rec = append(*rec, sentRec{tag: tag, data: m.data, task: task, invoke: inv, done: rt.Stamp()})
						if len(m.data) > 65535 {
							rt.Hit("msg.multi-segment-message")
						}
						if chance("op", 1, 10) {
							sleep(oneOf("op", time.Millisecond, 100*time.Millisecond, 3*time.Second))
						}
					}
				}()
			}
			for i := 0; i < k; i++ {
				<-fin
			}
		}
		waitOr := func(ch chan struct{}) bool {
			for i := 0; i < 720; i++ {
				select {
				case <-ch:
					return true
				case <-time.After(10 * time.Second):
				}
				if len(cl.errs)+len(sv.errs)+len(ep.merrA)+len(ep.merrB) > 0 {
					return false
				}
			}
			return false
		}
		ok := true
		for r := 0; r < rounds && ok && !abort; r++ {
			burst(cl, 0, pick("op", maxPer+1), nsenders, &sentC)
			if abort {
				break
			}
			tagCtr++
			turn := mkRaw(1, tagCtr, 12)
			if err := cl.p.SendMessage(turn); err != nil && !ep.deadlineFired() {
				rt.Violate("C10/send-failed", "client turn: %v", err)
				return
			}
			sentC = append(sentC, sentRec{tag: tagCtr, data: turn.data, task: -1, invoke: rt.Stamp(), done: rt.Stamp()})
			if !waitOr(turnGot) {
				ok = false
				break
			}
			burst(sv, 2, pick("op", maxPer+1), nsenders, &sentS)
			if abort {
				break
			}
			tagCtr++
			back := mkRaw(3, tagCtr, 12)
			if err := sv.p.SendMessage(back); err != nil && !ep.deadlineFired() {
				rt.Violate("C10/send-failed", "server turn-back: %v", err)
				return
			}
			sentS = append(sentS, sentRec{tag: tagCtr, data: back.data, task: -1, invoke: rt.Stamp(), done: rt.Stamp()})
			if !waitOr(backGot) {
				ok = false
			}
		}
		if ep.deadlineFired() {
			rt.Hit("msg.inconclusive-read-deadline")
			return
		}
		if len(cl.errs)+len(sv.errs)+len(ep.merrA)+len(ep.merrB) > 0 {
			rt.Violate("C10/error-in-fault-free-run", "client errs=%v server errs=%v muxer errs=%v %v", cl.errs, sv.errs, ep.merrA, ep.merrB)
			return
		}
		if !ok {
			rt.Violate("C10/stuck", "a turn message was not handled within 2h: server handled %d/%d client handled %d/%d", len(sv.handled), len(sentC), len(cl.handled), len(sentS))
			return
		}
		check := func(who string, got []handledMsg, sent []sentRec, wire []byte) {
			if len(got) != len(sent) {
				rt.Violate("C10/count-mismatch", "%s handled %d messages, peer queued %d", who, len(got), len(sent))
				return
			}
			byTag := map[uint32]sentRec{}
			for _, sr := range sent {
				byTag[sr.tag] = sr
			}
			lastPerTask := map[int]uint32{}
			seen := map[uint32]bool{}
			var order []uint32
			for n, g := range got {
				tag := rawTag(g.Data)
				sr, okk := byTag[tag]
				if !okk || seen[tag] {
					rt.Violate("C10/unknown-or-duplicate-message", "%s handled message #%d with tag %d that was not queued exactly once", who, n, tag)
					return
				}
				seen[tag] = true
				if !bytes.Equal(g.Data, sr.data) {
					rt.Violate("C10/bytes-differ", "%s handled message #%d (tag %d, %d bytes): bytes differ from what was queued (%d bytes)", who, n, tag, len(g.Data), len(sr.data))
					return
				}
				if lt, has := lastPerTask[sr.task]; has && lt > tag && sr.task >= 0 {
					rt.Violate("C10/order", "%s handled tag %d after tag %d, both queued by the same task in the other order", who, tag, lt)
					return
				}
				lastPerTask[sr.task] = tag
				order = append(order, tag)
			}
			// real-time order: A returned before B was invoked => A first
			for i := 0; i < len(order); i++ {
				for j := i + 1; j < len(order); j++ {
					a, b := byTag[order[i]], byTag[order[j]]
					if b.done < a.invoke {
						rt.Violate("C10/order", "%s handled tag %d before tag %d although the latter's SendMessage had returned before the former's was invoked", who, a.tag, b.tag)
						return
					}
				}
			}
			// wire: concatenated payloads are exactly the handled messages
			ms, rest, err := splitMessages(wire)
			if err != nil || len(rest) != 0 || len(ms) != len(got) {
				rt.Violate("C10/wire", "%s side wire stream: %d messages, rest %d, err %v; handled %d", who, len(ms), len(rest), err, len(got))
				return
			}
			for n := range ms {
				if !bytes.Equal(ms[n], got[n].Data) {
					rt.Violate("C10/wire", "%s: wire message #%d differs from handled message", who, n)
					return
				}
			}
		}
		framesAB, _ := parseFrames(ep.net.AB.Log)
		framesBA, _ := parseFrames(ep.net.BA.Log)
		packed := false
		for _, fr := range append(framesAB, framesBA...) {
			if fr.Proto != 0x33 {
				continue
			}
			if n, e := cborItemLen(fr.Payload); e == nil && n < len(fr.Payload) {
				packed = true
			}
		}
		if packed {
			rt.Hit("msg.several-messages-in-one-segment")
		}
		check("server", sv.handled, sentC, protoStream(framesAB, 0x33, false))
		check("client", cl.handled, sentS, protoStream(framesBA, 0x33, true))
		rt.Hit(fmt.Sprintf("msg.sizeclass-%d", sizeClass))
		cl.p.Stop()
		sv.p.Stop()
		ep.stop()
	}
}
