package sim

import (
	"fmt"
	"strings"
	"time"

	ouroboros "github.com/blinklabs-io/gouroboros"
	"github.com/blinklabs-io/gouroboros/protocol"
	"github.com/blinklabs-io/gouroboros/protocol/blockfetch"
	"github.com/blinklabs-io/gouroboros/protocol/chainsync"
	pcommon "github.com/blinklabs-io/gouroboros/protocol/common"
	"github.com/blinklabs-io/gouroboros/protocol/keepalive"
	"github.com/blinklabs-io/gouroboros/protocol/leiosfetch"
	"github.com/blinklabs-io/gouroboros/protocol/localstatequery"
	"github.com/blinklabs-io/gouroboros/protocol/localtxmonitor"
	"github.com/blinklabs-io/gouroboros/protocol/localtxsubmission"
	"github.com/blinklabs-io/gouroboros/protocol/peersharing"
	"github.com/blinklabs-io/gouroboros/protocol/txsubmission"
	rt "github.com/blinklabs-io/gouroboros/verifsimrt"
)

// Scenario ROLES (C17): a real Connection (client/server, NtN/NtC/DMQ, duplex
// requested or not) against a raw peer that completes the handshake with a
// chosen version and diffusion flag, then sends request and response segments
// in both directions.

func init() {
	register(&Scenario{Name: "roles", Setup: rolesSetup})
}

func rolesSetup(s *rt.Sim, tier string) func() {
	schedCfg(s, true)
	s.Cfg.MaxSteps = 60000
	s.Cfg.MaxStall = 100 * time.Millisecond
	s.Cfg.Horizon = 6 * time.Hour
	return func() {
		pair := NewPair(drawNetCfg(false))
		co := connOpts{magic: 42}
		switch pick("cfg", 5) {
		case 0, 1, 2:
			co.ntn = true
		case 3:
		default:
			co.dmq = true
		}
		co.server = chance("cfg", 1, 2)
		co.duplex = chance("cfg", 1, 2)
		co.peerSharing = chance("cfg", 1, 2)
		peerDuplex := chance("cfg", 1, 2)
		// server-side application callbacks record what reaches a local responder
		serverCallbacks := 0
		findIntersect := func(chainsync.CallbackContext, []pcommon.Point) (pcommon.Point, chainsync.Tip, error) {
			serverCallbacks++
			rt.Log("server callback: FindIntersect")
			return samplePoint(1), sampleTip(1), nil
		}
		requestNext := func(ctx chainsync.CallbackContext) error {
			serverCallbacks++
			rt.Log("server callback: RequestNext")
			return ctx.Server.AwaitReply()
		}
		csCfg := chainsync.NewConfig(chainsync.WithFindIntersectFunc(findIntersect), chainsync.WithRequestNextFunc(requestNext),
			chainsync.WithRollForwardFunc(func(chainsync.CallbackContext, uint, any, chainsync.Tip) error { return nil }),
			chainsync.WithRollBackwardFunc(func(chainsync.CallbackContext, pcommon.Point, chainsync.Tip) error { return nil }))
		kaCfg := keepalive.NewConfig(keepalive.WithKeepAliveFunc(func(keepalive.CallbackContext, uint16) error {
			serverCallbacks++
			rt.Log("server callback: KeepAlive")
			return nil
		}))
		psCfg := peersharing.NewConfig(peersharing.WithShareRequestFunc(func(peersharing.CallbackContext, int) ([]peersharing.PeerAddress, error) {
			serverCallbacks++
			rt.Log("server callback: ShareRequest")
			return nil, nil
		}))
		bfCfg, _ := blockfetch.NewConfig(blockfetch.WithRequestRangeFunc(func(ctx blockfetch.CallbackContext, a, b pcommon.Point) error {
			serverCallbacks++
			rt.Log("server callback: RequestRange")
			return ctx.Server.NoBlocks()
		}))
		txCfg := txsubmission.NewConfig(txsubmission.WithInitFunc(func(txsubmission.CallbackContext) error {
			serverCallbacks++
			rt.Log("server callback: Init")
			return nil
		}))
		lfCfg := leiosfetch.NewConfig(leiosfetch.WithBlockRequestFunc(func(leiosfetch.CallbackContext, pcommon.Point) (protocol.Message, error) {
			serverCallbacks++
			rt.Log("server callback: leios BlockRequest")
			return leiosfetch.NewMsgNoBlock(), nil
		}))
		ltsCfg := localtxsubmission.NewConfig(localtxsubmission.WithSubmitTxFunc(func(localtxsubmission.CallbackContext, localtxsubmission.MsgSubmitTxTransaction) error {
			serverCallbacks++
			rt.Log("server callback: SubmitTx")
			return nil
		}))
		lsqCfg := localstatequery.NewConfig(localstatequery.WithAcquireFunc(func(localstatequery.CallbackContext, localstatequery.AcquireTarget, bool) error {
			serverCallbacks++
			rt.Log("server callback: Acquire")
			return nil
		}))
		ltmCfg := localtxmonitor.NewConfig(localtxmonitor.WithGetMempoolFunc(func(localtxmonitor.CallbackContext) (uint64, uint32, []localtxmonitor.TxAndEraId, error) {
			serverCallbacks++
			rt.Log("server callback: GetMempool")
			return 1000, 0, nil, nil
		}))
		opts := append(co.options(pair.A), ouroboros.WithChainSyncConfig(csCfg), ouroboros.WithKeepAliveConfig(kaCfg), ouroboros.WithPeerSharingConfig(psCfg),
			ouroboros.WithBlockFetchConfig(bfCfg), ouroboros.WithTxSubmissionConfig(txCfg), ouroboros.WithLeiosFetchConfig(lfCfg),
			ouroboros.WithLocalTxSubmissionConfig(ltsCfg), ouroboros.WithLocalStateQueryConfig(lsqCfg), ouroboros.WithLocalTxMonitorConfig(ltmCfg))
		peer := newRawPeer(pair.B)
		var conn *ouroboros.Connection
		var cErr error
		connRet := false
		go func() {
			conn, cErr = ouroboros.NewConnection(opts...)
			connRet = true
		}()
		var version uint16
		if co.server {
			// the raw initiator proposes one version of the matching family
			tbl := (connOpts{ntn: co.ntn, dmq: co.dmq, magic: 42, duplex: peerDuplex, peerSharing: true}).table().m
			ks := versionKeys(tbl)
			v := ks[pick("cfg", len(ks))]
			version = rawProposeAndAwait(peer, protocol.ProtocolVersionMap{v: tbl[v]})
		} else {
			version = rawAcceptHighest(peer, co.table().m, co.magic, peerDuplex, func(ks []uint16) uint16 { return ks[pick("cfg", len(ks))] })
		}
		if version == 0 {
			return
		}
		for i := 0; i < 600 && !connRet; i++ {
			sleep(100 * time.Millisecond)
		}
		if !connRet || cErr != nil {
			rt.Hit("roles.setup-failed")
			return
		}
		watch := watchConn(conn)
		// model of the negotiated roles
		// full duplex needs both sides' request *and* a version that has it: node-to-node
		// version 10 introduced duplex connections (the repository's own version table says so
		// too: EnableFullDuplex is false for 7, 8 and 9)
		duplex := co.ntn && co.duplex && peerDuplex && version >= 10
		if co.ntn && co.duplex && peerDuplex && version < 10 {
			rt.Hit("roles.duplex-requested-on-pre-duplex-version")
		}
		hasResponder := co.server || duplex
		hasInitiator := !co.server || duplex
		desc := fmt.Sprintf("local %+v, peer duplex=%v, version %d: model duplex=%v", co, peerDuplex, version, duplex)
		// which protocols the version enables (from the network specification)
		switch {
		case co.ntn:
			wantPS := version >= 11
			if (conn.PeerSharing() != nil) != wantPS {
				rt.Violate("C17/protocol-set", "%s: peer-sharing present=%v, the version enables it: %v", desc, conn.PeerSharing() != nil, wantPS)
				return
			}
			if conn.KeepAlive() == nil || conn.ChainSync() == nil || conn.BlockFetch() == nil || conn.TxSubmission() == nil {
				rt.Violate("C17/protocol-set", "%s: a node-to-node protocol enabled by every supported version is missing", desc)
				return
			}
			if conn.LocalStateQuery() != nil || conn.LocalTxMonitor() != nil || conn.LocalTxSubmission() != nil {
				rt.Violate("C17/protocol-set", "%s: node-to-client protocol present on a node-to-node connection", desc)
				return
			}
		case co.dmq:
			if conn.LocalMessageSubmission() == nil || conn.LocalMessageNotification() == nil || conn.ChainSync() != nil {
				rt.Violate("C17/protocol-set", "%s: DMQ connection protocol set wrong", desc)
				return
			}
		default:
			wantLTM := version >= 0x8000+12
			if (conn.LocalTxMonitor() != nil) != wantLTM {
				rt.Violate("C17/protocol-set", "%s: local-tx-monitor present=%v, the version enables it: %v", desc, conn.LocalTxMonitor() != nil, wantLTM)
				return
			}
			if conn.ChainSync() == nil || conn.LocalTxSubmission() == nil || conn.LocalStateQuery() == nil {
				rt.Violate("C17/protocol-set", "%s: a node-to-client protocol enabled by every supported version is missing", desc)
				return
			}
			if conn.BlockFetch() != nil || conn.KeepAlive() != nil || conn.PeerSharing() != nil {
				rt.Violate("C17/protocol-set", "%s: node-to-node protocol present on a node-to-client connection", desc)
				return
			}
		}
		// traffic: what = "request" (direction bit clear) or "response" (bit set)
		what := oneOf("op", "request", "response")
		type probeMsg struct {
			id    uint16
			label string
			typ   uint8
		}
		var cands []probeMsg
		if what == "request" {
			switch {
			case co.ntn:
				cands = []probeMsg{{chainsync.ProtocolIdNtN, "chainsync-ntn", 4}, {chainsync.ProtocolIdNtN, "chainsync-ntn", 0}, {keepalive.ProtocolId, "keepalive", 0},
					{blockfetch.ProtocolId, "blockfetch", 0}, {txsubmission.ProtocolId, "txsubmission", 6}, {leiosfetch.ProtocolId, "leiosfetch", 0}}
				if version >= 11 && co.peerSharing {
					cands = append(cands, probeMsg{10, "peersharing", 0})
				}
			case co.dmq:
				cands = []probeMsg{{15, "localmessagenotification", 0}}
			default:
				cands = []probeMsg{{chainsync.ProtocolIdNtC, "chainsync-ntc", 4}, {chainsync.ProtocolIdNtC, "chainsync-ntc", 0},
					{localtxsubmission.ProtocolId, "localtxsubmission", 0}, {localstatequery.ProtocolId, "localstatequery", 8}}
				if version >= 0x8000+12 {
					cands = append(cands, probeMsg{localtxmonitor.ProtocolId, "localtxmonitor", 1})
				}
			}
		} else {
			switch {
			case co.ntn:
				cands = []probeMsg{{chainsync.ProtocolIdNtN, "chainsync-ntn", 6}, {keepalive.ProtocolId, "keepalive", 1},
					{blockfetch.ProtocolId, "blockfetch", 3}, {txsubmission.ProtocolId, "txsubmission", 0}, {leiosfetch.ProtocolId, "leiosfetch", 100}}
			case co.dmq:
				cands = []probeMsg{{14, "localmessagesubmission", 1}, {15, "localmessagenotification", 1}}
			default:
				cands = []probeMsg{{chainsync.ProtocolIdNtC, "chainsync-ntc", 6}, {localstatequery.ProtocolId, "localstatequery", 1}, {localtxsubmission.ProtocolId, "localtxsubmission", 1}}
			}
		}
		if len(cands) == 0 {
			conn.Close()
			peer.close()
			return
		}
		pm := cands[pick("op", len(cands))]
		// lifecycle (F15, own stream of draws): on a full-duplex connection the local *client* of
		// the probed protocol is stopped first. That ends one role's conversation; the other role
		// of the same protocol number stays enabled and must stay reachable.
		if duplex && what == "request" && rt.Choose("op.x", 2) == 1 {
			switch pm.label {
			case "chainsync-ntn":
				_ = conn.ChainSync().Client.Stop()
				rt.Hit("roles.sibling-client-stopped")
			case "blockfetch":
				_ = conn.BlockFetch().Client.Stop()
				rt.Hit("roles.sibling-client-stopped")
			}
			sleep(oneOf("op", 10*time.Millisecond, 2*time.Second))
		}
		frames0 := len(peer.Frames)
		_ = peer.sendMsg(pm.id, what == "response", sampleBytes(pm.label, pm.typ, 0, 1))
		sleep(oneOf("op", 5*time.Second, 2*time.Minute))
		rt.Hit("roles." + what)
		rt.Hit("roles.proto." + pm.label)
		closedWithError := len(watch.errs) > 0
		switch {
		case what == "request" && !hasResponder:
			rt.Hit("roles.request-to-initiator-only")
			if serverCallbacks > 0 {
				rt.Violate("C17/request-reached-responder", "%s: a peer request (%s type %d) reached a local server callback on an initiator-only connection", desc, pm.label, pm.typ)
				return
			}
			if !closedWithError || !pair.A.closed {
				rt.Violate("C17/request-not-fatal", "%s: a peer request arrived on an initiator-only connection; errors %v, connection closed %v", desc, watch.errs, pair.A.closed)
				return
			}
		case what == "response" && !hasInitiator:
			rt.Hit("roles.response-to-responder-only")
			if !closedWithError || !pair.A.closed {
				rt.Violate("C17/response-not-fatal", "%s: a peer response arrived on a responder-only connection; errors %v, connection closed %v", desc, watch.errs, pair.A.closed)
				return
			}
		case what == "response" && hasInitiator:
			// an enabled initiator role is reachable: what the protocol does with an unsolicited
			// reply is the state machine's business, but the *muxer* must let the segment through
			rt.Hit("roles.response-to-enabled-initiator")
			for _, e := range watch.errs {
				if strings.Contains(e.Error(), "not configured as an initiator") {
					rt.Violate("C17/enabled-initiator-unreachable", "%s: a peer response (%s type %d) for an enabled initiator role was refused by the muxer: %v", desc, pm.label, pm.typ, e)
					return
				}
			}
		case what == "request" && hasResponder:
			// an enabled responder is reachable: the request is served
			rt.Hit("roles.request-served")
			served := serverCallbacks > 0
			// peer-sharing may be refused by configuration; a reply on the wire counts as reachable
			for _, f := range peer.Frames[frames0:] {
				if f.Proto == pm.id && f.Response {
					served = true
				}
			}
			if !served {
				var es []string
				for _, e := range watch.errs {
					es = append(es, e.Error())
				}
				rt.Violate("C17/enabled-responder-unreachable", "%s: request %s type %d got neither a callback nor a reply (errors: %s)", desc, pm.label, pm.typ, strings.Join(es, "; "))
				return
			}
		}
		conn.Close()
		peer.close()
	}
}
