package sim

import (
	"bytes"
	"context"
	"fmt"
	"os"
	"time"

	ouroboros "github.com/blinklabs-io/gouroboros"
	lcommon "github.com/blinklabs-io/gouroboros/ledger/common"
	"github.com/blinklabs-io/gouroboros/pipeline"
	"github.com/blinklabs-io/gouroboros/protocol/chainsync"
	pcommon "github.com/blinklabs-io/gouroboros/protocol/common"
	rt "github.com/blinklabs-io/gouroboros/verifsimrt"
)

// Scenario CHAINSYNC-PIPELINE (C21 "with a block pipeline", C43 "this is what
// makes a chain-sync rollback safe"): a real node-to-client chain-sync client
// configured with a real BlockPipeline syncs from a real server Connection that
// plays a model history of roll-forwards, roll-backwards and await-replies.
// Roll-forwards go into the pipeline (decode workers, optional validate
// workers, ordered apply stage with a slow ApplyFunc); a roll-backward makes
// the client wait for the pipeline to drain before it calls the application.
//
// Oracle: the application sees one linear story -- apply calls and roll-backward
// callbacks -- that equals the server's history: every block applied exactly
// once, in the order served; every roll-backward callback with the point and
// tip the server sent, and only after the apply call of every block served
// before it has *returned*, and before the apply call of any block served
// after it begins.

func init() {
	register(&Scenario{Name: "chainsync-pipeline", Setup: chainSyncPipelineSetup})
}

func chainSyncPipelineSetup(s *rt.Sim, tier string) func() {
	schedCfg(s, true)
	s.Cfg.MaxSteps = 200000
	s.Cfg.MaxStall = 200 * time.Millisecond
	s.Cfg.StallWindow = 10 * time.Second
	s.Cfg.StallBudget = 3 * time.Second
	s.Cfg.Horizon = 12 * time.Hour
	return func() {
		ncfg := drawNetCfg(true)
		if ncfg.BufCap > 0 && ncfg.BufCap < 8192 {
			ncfg.BufCap = 8192
		}
		if ncfg.Latency > 20*time.Millisecond {
			ncfg.Latency = 20 * time.Millisecond
		}
		ncfg.Jitter = 0
		pair := NewPair(ncfg)
		limit := oneOf("cfg", 0, 1, 2, 3, 10, 50, 100, 7)
		effLimit := limit
		if limit == 0 {
			effLimit = chainsync.DefaultPipelineLimit
		}
		workers := oneOf("cfg", 1, 2, 4, 8, 3)
		buf := 1 + pick("cfg", 8)
		maxPending := oneOf("cfg", 0, 1, 2, 4)
		valWorkers := oneOf("cfg", 0, 0, 2, 8)
		slowApply := pick("cfg", 3)
		slowVal := pick("cfg", 3)
		// knob (own stream): leave PipelineDrainTimeout unset in half of the runs, so that the
		// library's default (30 s) is what protects a roll-backward; apply and validation then
		// dwell for at most 50 ms per block, two orders of magnitude below what could use it up
		drainUnset := rt.Choose("cfg.x", 2) == 1
		// F15 (own stream): the client is stopped, or the connection closed, by another task while
		// the stream flows - with luck while a roll-backward waits for the pipeline to drain. The
		// order of what the application has seen by then must still be the server's order
		stopMid := rt.Choose("cfg.x", 4) == 3
		stopMidAt := 1 + rt.Choose("cfg.x", 12)
		stopMidClose := rt.Choose("cfg.x", 2) == 1
		stopMidFired := false
		var cConn, sConn *ouroboros.Connection
		blocks := fixBlocks()
		nops := 3 + pick("cfg", 30)
		var hist []csOp
		backs := 0
		for i := 0; i < nops; i++ {
			op := csOp{tip: pcommon.Tip{Point: samplePoint(uint64(i) + 50), BlockNumber: uint64(i) + 1}}
			if chance("op", 1, 4) {
				op.kind, op.point = "back", samplePoint(uint64(i))
				backs++
			} else {
				op.kind = "fwd"
				op.blk = blocks[pick("op", len(blocks))]
				if valWorkers > 0 {
					op.blk = validConwayBlock() // passes the validate stage
				}
			}
			op.await = chance("op", 1, 8)
			hist = append(hist, op)
		}
		// ---- application side of the client: pipeline apply + roll-backward callback
		type ev struct {
			kind       string // "apply", "back"
			idx        int    // index into hist (from the tip's block number), -1 if unknown
			start, end uint64
			point      pcommon.Point
			tip        pcommon.Tip
		}
		var evs []*ev
		cbForward := 0
		var pl *pipeline.BlockPipeline
		reqOnWire := func() int {
			frames, _ := parseFrames(pair.AB.Log)
			ms, _, _ := splitMessages(protoStream(frames, chainsync.ProtocolIdNtC, false))
			n := 0
			for _, m := range ms {
				if ty, err := msgType(m); err == nil && ty == 0 {
					n++
				}
			}
			return n
		}
		repliesOnWire := func() int {
			frames, _ := parseFrames(pair.BA.Log)
			ms, _, _ := splitMessages(protoStream(frames, chainsync.ProtocolIdNtC, true))
			n := 0
			for _, m := range ms {
				if ty, err := msgType(m); err == nil && (ty == 2 || ty == 3) {
					n++
				}
			}
			return n
		}
		maxOutstanding := 0
		noteOutstanding := func() {
			// requests written minus replies the server has written: a lower bound of what the
			// client has outstanding (a reply on the wire may not have been handled yet)
			if out := reqOnWire() - repliesOnWire(); out > maxOutstanding {
				maxOutstanding = out
			}
		}
		applyFunc := func(item *pipeline.BlockItem) error {
			e := &ev{kind: "apply", idx: int(item.Tip().BlockNumber) - 1, start: rt.Stamp(), tip: item.Tip()}
			evs = append(evs, e)
			noteOutstanding()
			if stopMid && !stopMidFired && len(evs) >= stopMidAt && cConn != nil {
				stopMidFired = true
				rt.Fault("F15.stop-while-streaming")
				go func() {
					sleep(oneOf("op", 0, time.Millisecond, 30*time.Millisecond, 400*time.Millisecond))
					if stopMidClose {
						cConn.Close()
					} else {
						_ = cConn.ChainSync().Client.Stop()
					}
				}()
			}
			switch {
			case drainUnset && slowApply > 0:
				sleep(oneOf("op", time.Millisecond, 20*time.Millisecond, 50*time.Millisecond))
			case slowApply == 1:
				if chance("op", 1, 3) {
					sleep(oneOf("op", time.Millisecond, 50*time.Millisecond, time.Second))
				}
			case slowApply == 2:
				sleep(oneOf("op", 20*time.Millisecond, 300*time.Millisecond, 2*time.Second))
			}
			e.end = rt.Stamp()
			return nil
		}
		eta0Provider := func(slot uint64) (string, error) {
			if slowVal > 0 && chance("op", slowVal, 3) {
				if drainUnset {
					sleep(oneOf("op", time.Millisecond, 10*time.Millisecond, 40*time.Millisecond))
				} else {
					sleep(oneOf("op", time.Millisecond, 40*time.Millisecond, 700*time.Millisecond))
				}
			}
			return validConwayEta0, nil
		}
		plOpts := []pipeline.PipelineOption{
			pipeline.WithDecodeWorkers(workers),
			pipeline.WithValidateWorkers(valWorkers),
			pipeline.WithPrefetchBufferSize(buf),
			pipeline.WithApplyFunc(applyFunc),
			pipeline.WithSkipBodyHashValidation(true),
		}
		if maxPending > 0 {
			plOpts = append(plOpts, pipeline.WithMaxPendingBlocks(maxPending))
		}
		if valWorkers > 0 {
			plOpts = append(plOpts, pipeline.WithEta0Provider(eta0Provider), pipeline.WithSlotsPerKesPeriod(129600),
				pipeline.WithVerifyConfig(lcommon.VerifyConfig{SkipBodyHashValidation: true, SkipTransactionValidation: true, SkipStakePoolValidation: true}))
			rt.Hit("cspl.validation-on")
		}
		pl = pipeline.NewBlockPipeline(plOpts...)
		if err := pl.Start(context.Background()); err != nil {
			rt.Violate("C21/pipeline-start-failed", "Start: %v", err)
			return
		}
		results := 0
		go func() {
			for range pl.Results() {
				results++
			}
		}()
		go func() {
			for range pl.Errors() {
			}
		}()
		// ---- server application
		next := 0
		sendOp := func(srv *chainsync.Server, op csOp) error {
			if op.kind == "back" {
				return srv.RollBackward(op.point, op.tip)
			}
			return srv.RollForward(op.blk.Type, op.blk.Data, op.tip)
		}
		exhausted := false
		requestNext := func(ctx chainsync.CallbackContext) error {
			if next >= len(hist) {
				exhausted = true
				return ctx.Server.AwaitReply()
			}
			op := hist[next]
			next++
			if op.await {
				if err := ctx.Server.AwaitReply(); err != nil {
					return err
				}
				d := oneOf("op", 10*time.Millisecond, time.Second, 20*time.Second, 100*time.Second)
				srv := ctx.Server
				go func() {
					sleep(d)
					_ = sendOp(srv, op)
				}()
				return nil
			}
			return sendOp(ctx.Server, op)
		}
		findIntersect := func(ctx chainsync.CallbackContext, pts []pcommon.Point) (pcommon.Point, chainsync.Tip, error) {
			return pts[0], sampleTip(0), nil
		}
		cCfg := chainsync.NewConfig(
			chainsync.WithRollForwardFunc(func(ctx chainsync.CallbackContext, t uint, data any, tip chainsync.Tip) error {
				cbForward++ // not used on the pipeline path
				return nil
			}),
			chainsync.WithRollBackwardFunc(func(ctx chainsync.CallbackContext, p pcommon.Point, tip chainsync.Tip) error {
				e := &ev{kind: "back", idx: int(tip.BlockNumber) - 1, start: rt.Stamp(), point: p, tip: tip}
				evs = append(evs, e)
				noteOutstanding()
				if chance("op", 1, 4) {
					sleep(oneOf("op", 10*time.Millisecond, time.Second))
				}
				e.end = rt.Stamp()
				return nil
			}),
			chainsync.WithPipelineLimit(limit),
			chainsync.WithPipeline(pl),
		)
		// the drain before a roll-backward must not give up in this scenario: the slowest
		// history (30 blocks x 2 s apply) needs a minute
		if drainUnset {
			rt.Hit("cspl.default-drain-timeout")
		} else {
			cCfg.PipelineDrainTimeout = 30 * time.Minute
		}
		sCfg := chainsync.NewConfig(chainsync.WithRequestNextFunc(requestNext), chainsync.WithFindIntersectFunc(findIntersect))
		co := connOpts{ntn: false, magic: 42}
		so := connOpts{ntn: false, magic: 42, server: true}
		var cErr, sErr error
		cRet, sRet := false, false
		go func() {
			sConn, sErr = ouroboros.NewConnection(append(so.options(pair.B), ouroboros.WithChainSyncConfig(sCfg))...)
			sRet = true
		}()
		go func() {
			cConn, cErr = ouroboros.NewConnection(append(co.options(pair.A), ouroboros.WithChainSyncConfig(cCfg))...)
			cRet = true
		}()
		for i := 0; i < 600 && !(cRet && sRet); i++ {
			sleep(100 * time.Millisecond)
		}
		if !cRet || !sRet || cErr != nil || sErr != nil {
			rt.Hit("cspl.setup-failed")
			_ = pl.Stop()
			return
		}
		cw, sw := watchConn(cConn), watchConn(sConn)
		kaStop := false
		connKeepAlive(&kaStop, cConn, sConn)
		finish := func() {
			cConn.Close()
			sConn.Close()
			_ = pl.Stop()
		}
		if err := cConn.ChainSync().Client.Sync([]pcommon.Point{samplePoint(0)}); err != nil {
			if pair.A.Deadline+pair.B.Deadline == 0 {
				rt.Violate("C21/sync-failed", "Sync (with a block pipeline) returned %v (client errors %v, server errors %v)", err, cw.errs, sw.errs)
			}
			finish()
			return
		}
		expect := len(hist)
		if stopMid {
			// wait until the stop happened (or the history ran out first) and things are quiet
			for i := 0; i < 9000 && !stopMidFired && len(evs) < expect && len(cw.errs) == 0 && len(sw.errs) == 0; i++ {
				sleep(200 * time.Millisecond)
			}
			sleep(2 * time.Minute)
			for i := 0; i < 600 && len(evs) > 0 && evs[len(evs)-1].end == 0; i++ {
				sleep(200 * time.Millisecond)
			}
			if stopMidFired {
				rt.Hit("cspl.stopped-while-streaming")
			}
			sdesc := fmt.Sprintf("ntc+pipeline limit=%d ops=%d, client %s by another task after %d application events", limit, len(hist), map[bool]string{true: "connection closed", false: "stopped"}[stopMidClose], stopMidAt)
			for _, b := range evs {
				if b.kind != "back" || b.idx < 0 || b.idx >= len(hist) {
					continue
				}
				for _, a := range evs {
					if a.kind == "apply" && a.idx < b.idx && (a.start > b.start || a.end == 0 || a.end > b.start) {
						cls := "C43/rollback-before-drain"
						if os.Getenv("VERIF_PROPERTY") == "C21" {
							cls = "C21/callback-order"
						}
						rt.Violate(cls, "%s: the roll-backward callback of update #%d began at event %d, but the apply call of block #%d, served before it, started at event %d and ended at %d", sdesc, b.idx, b.start, a.idx, a.start, a.end)
						finish()
						return
					}
				}
			}
			for i, e := range evs {
				if i >= len(hist) || e.idx != i {
					rt.Violate("C21/callback-order", "%s: application event #%d is update #%d", sdesc, i, e.idx)
					finish()
					return
				}
			}
			finish()
			return
		}
		for i := 0; i < 9000 && len(evs) < expect && len(cw.errs) == 0 && len(sw.errs) == 0; i++ {
			sleep(200 * time.Millisecond)
		}
		// let the last apply / callback return
		for i := 0; i < 600 && len(evs) > 0 && evs[len(evs)-1].end == 0; i++ {
			sleep(200 * time.Millisecond)
		}
		if pair.A.Deadline+pair.B.Deadline > 0 {
			rt.Hit("cs.inconclusive-read-deadline")
			finish()
			return
		}
		desc := fmt.Sprintf("ntc+pipeline limit=%d ops=%d (%d roll-backwards) decodeWorkers=%d validateWorkers=%d buffer=%d maxPending=%d slowApply=%d", limit, len(hist), backs, workers, valWorkers, buf, maxPending, slowApply)
		if len(cw.errs)+len(sw.errs) > 0 {
			rt.Violate("C21/error-in-conforming-sync", "%s: client errors %v, server errors %v after %d application events", desc, cw.errs, sw.errs, len(evs))
			finish()
			return
		}
		if len(evs) < expect {
			rt.Violate("C21/sync-stalls", "%s: %d application events (apply calls + roll-backward callbacks) after 30 simulated minutes, the server sent %d updates", desc, len(evs), expect)
			finish()
			return
		}
		// ---- C43 through chain-sync: when the roll-backward callback of update #k begins, the
		// apply call of every block served before #k has returned
		// (the same history is also a C21 violation -- the application sees the roll-backward
		// before updates the server sent earlier; when the C21 check runs, the linear-story
		// pass below reports it under C21's class)
		for _, b := range evs {
			if b.kind != "back" || b.idx < 0 || b.idx >= len(hist) || os.Getenv("VERIF_PROPERTY") == "C21" {
				continue
			}
			for _, a := range evs {
				if a.kind != "apply" || a.idx >= b.idx {
					continue
				}
				if a.start > b.start || a.end == 0 || a.end > b.start {
					rt.Violate("C43/rollback-before-drain", "%s: the roll-backward callback of update #%d began at event %d, but the apply call of block #%d, served before it, started at event %d and ended at %d: the pipeline had not drained", desc, b.idx, b.start, a.idx, a.start, a.end)
					finish()
					return
				}
			}
		}
		// ---- one linear story, equal to the server's history
		for i, e := range evs {
			if i >= len(hist) {
				rt.Violate("C21/extra-callback", "%s: application event #%d (%s) but the server sent only %d updates", desc, i, e.kind, len(hist))
				finish()
				return
			}
			op := hist[i]
			want := "apply"
			if op.kind == "back" {
				want = "back"
			}
			if e.kind != want || e.idx != i {
				rt.Violate("C21/callback-order", "%s: application event #%d is %s of update #%d, the server's update #%d was %s", desc, i, e.kind, e.idx, i, op.kind)
				finish()
				return
			}
			if e.tip.BlockNumber != op.tip.BlockNumber || !bytes.Equal(e.tip.Point.Hash, op.tip.Point.Hash) || e.tip.Point.Slot != op.tip.Point.Slot {
				rt.Violate("C21/callback-tip", "%s: application event #%d carries tip %v, the server sent %v", desc, i, e.tip, op.tip)
				finish()
				return
			}
			if op.kind == "back" && (e.point.Slot != op.point.Slot || !bytes.Equal(e.point.Hash, op.point.Hash)) {
				rt.Violate("C21/callback-point", "%s: roll-backward callback #%d has point %v, server sent %v", desc, i, e.point, op.point)
				finish()
				return
			}
			if i > 0 {
				prev := evs[i-1]
				if e.kind == "back" && prev.kind == "apply" {
					rt.Hit("cspl.rollback-after-block")
				}
				if prev.end == 0 || prev.end > e.start {
					rt.Violate("C21/callbacks-overlap", "%s: application event #%d began (event %d) before #%d had returned (%d)", desc, i, e.start, i-1, prev.end)
					finish()
					return
				}
			}
		}
		if backs > 0 {
			rt.Hit("cspl.rollbacks-checked")
		}
		if maxOutstanding > effLimit {
			rt.Violate("C21/pipeline-limit-exceeded", "%s: %d requests written and not yet answered on the wire, effective limit %d", desc, maxOutstanding, effLimit)
			finish()
			return
		}
		if maxOutstanding > 1 {
			rt.Hit("cs.pipelined")
		}
		if cbForward > 0 {
			rt.Hit("cspl.forward-callback-also-called")
		}
		// every block also appeared on the pipeline's result stream
		for i := 0; i < 300 && results < expect-backs; i++ {
			sleep(200 * time.Millisecond)
		}
		if results != expect-backs {
			rt.Violate("C21/pipeline-results", "%s: %d blocks served, %d items on the pipeline's Results()", desc, expect-backs, results)
			finish()
			return
		}
		rt.Hit("cspl.full-history-checked")
		// ---- Stop (requests the client pipelined beyond the end of the history are still
		// outstanding, so only "Stop returns" is judged here; the clean-stop oracle lives in
		// scenario chainsync)
		stopRet := false
		go func() {
			_ = cConn.ChainSync().Client.Stop()
			stopRet = true
		}()
		for i := 0; i < 6000 && !stopRet; i++ {
			sleep(200 * time.Millisecond)
		}
		if !stopRet {
			rt.Violate("C21/stop-hangs", "%s: Client.Stop had not returned after 20 simulated minutes", desc)
		}
		_ = exhausted
		finish()
	}
}
