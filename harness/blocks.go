//verif:noinstr

package sim

import (
	"sync"

	"github.com/blinklabs-io/gouroboros/ledger"
	lcommon "github.com/blinklabs-io/gouroboros/ledger/common"
	pcommon "github.com/blinklabs-io/gouroboros/protocol/common"
)

// Real blocks of every era from the repository's fixtures.

type fixBlock struct {
	Era   string
	Type  uint
	Data  []byte
	Hash  []byte
	Slot  uint64
	Point pcommon.Point
}

var fixBlocksOnce sync.Once
var fixBlocksList []fixBlock

func fixBlocks() []fixBlock {
	fixBlocksOnce.Do(func() {
		for _, f := range []struct {
			era  string
			typ  uint
			file string
		}{
			{"byron", ledger.BlockTypeByronMain, "internal/testdata/byron_block.hex"},
			{"shelley", ledger.BlockTypeShelley, "internal/testdata/shelley_block.hex"},
			{"allegra", ledger.BlockTypeAllegra, "internal/testdata/allegra_block.hex"},
			{"mary", ledger.BlockTypeMary, "internal/testdata/mary_block.hex"},
			{"alonzo", ledger.BlockTypeAlonzo, "internal/testdata/alonzo_block.hex"},
			{"babbage", ledger.BlockTypeBabbage, "internal/testdata/babbage_block.hex"},
			{"conway", ledger.BlockTypeConway, "internal/testdata/conway_block.hex"},
		} {
			data := fixtureHex(f.file)
			b, err := ledger.NewBlockFromCbor(f.typ, data, lcommon.VerifyConfig{SkipBodyHashValidation: true})
			if err != nil {
				panic("harness: fixture block " + f.file + " does not decode: " + err.Error())
			}
			h := b.Hash().Bytes()
			fixBlocksList = append(fixBlocksList, fixBlock{Era: f.era, Type: f.typ, Data: data, Hash: h, Slot: b.SlotNumber(), Point: pcommon.NewPoint(b.SlotNumber(), h)})
		}
	})
	return fixBlocksList
}
