# Per-property check specification: scenarios (name, weight), run counts and budgets per tier,
# non-triviality probes, the counting rule reported in evidence.
REAL_NET = ["muxer (instrumented copy of the current tree)"]
STUB_NET = ["TCP connection (simnet.Conn: fragmentation, latency, bounded buffer, abrupt close, errors, deadlines)",
            "clock (testing/synctest fake clock)", "Go scheduler decisions (verifsimrt cooperative scheduler, PRNG tape)"]

def P(scenarios, quick, thorough, rule, nontrivial, expect=None, real=None, stubs=None, assumptions=None, budget=(120, 1500), detcheck=25):
    return dict(scenarios=scenarios, runs=dict(quick=quick, thorough=thorough), budget_s=dict(quick=budget[0], thorough=budget[1]),
                rule=rule, nontrivial=nontrivial, expect_probes=expect or nontrivial, real=real or REAL_NET, stubs=stubs or STUB_NET,
                assumptions=assumptions or [], detcheck=detcheck)

REAL_ENG = ["muxer", "protocol.Protocol engine (stateLoop/readLoop/recvLoop/sendLoop)", "repository state-map data", "CBOR decoding in readLoop"]
STUB_ENG = STUB_NET + ["application (harness handler tasks)", "message contents (opaque tagged CBOR arrays, except tx-submission RequestTxIds)"]

REAL_CONN = ["ouroboros.Connection (connection.go)", "muxer", "protocol engine", "handshake and all mini-protocol clients/servers the connection starts", "message codecs"]
STUB_CONN = STUB_NET + ["remote peer (scripted raw-segment peer built from the specification automata and sample messages)", "application callbacks"]

CS_RULE = "one evaluation = one simulated run of a real chain-sync client (NtN or NtC, pipeline limit from {0,1,2,3,7,10,50,100}, parsed or raw callbacks, slow callbacks) syncing from a real server Connection whose RequestNextFunc plays a model history of 3-42 roll-forwards (real blocks of 7 eras), roll-backwards and await-replies, optionally cancelled by ErrStopSyncProcess and followed by Client.Stop; distinct = distinct schedule hash; non-trivial = more than one request was outstanding at some callback (pipelining observed) or a clean stop was evaluated"

PL_RULE = "one evaluation = one simulated run of a real BlockPipeline (1-16 decode workers, prefetch buffer 1-8, validation off) fed by 1-3 submitter tasks with 1-10 real or truncated blocks each, a slow or fast ApplyFunc, 0-2 WaitForDrain callers, Submit contexts that expire under backpressure, and Stop either after everything drained or at an arbitrary instant; distinct = distinct schedule hash; "
REAL_PL = ["pipeline.BlockPipeline, worker pools, decode stage, apply stage and runner", "ledger block decoding"]
STUB_PL = ["clock (testing/synctest)", "Go scheduler decisions (verifsimrt)", "application (submitters, ApplyFunc, result/error drainers)"]

PROPS = {
 "C46": P([("auth", 1)], 4000, 200000,
          "one evaluation = one simulated run of one shared MessageAuthenticator (real Ed25519, Blake2b and KES verification; KES verifier injected through the library's SetKESVerifier seam, absent, or absent with insecure mode) called from 2-6 tasks with up to 36 operations: VerifyMessage of genuinely signed messages of 3 pools with certificate counters 0-3 and single-field corruptions (id, cold signature, KES signature, payload), RegisterSPOPool, UnregisterSPOPool, RemoveKESOpCertCacheEntry, with a yield at every lock and atomic; the invoke/return history (event sequence numbers) is checked for linearizability against a sequential model with porcupine; distinct = distinct schedule hash; non-trivial = at least one message was accepted",
          ["auth.message-accepted"], expect=["auth.message-accepted", "auth.verifier-mode-0", "auth.verifier-mode-4"],
          real=["protocol/common.MessageAuthenticator", "kes (sign/verify)", "crypto/ed25519, blake2b", "cbor"], stubs=["Go scheduler decisions (verifsimrt)", "clock (testing/synctest)", "callers (harness tasks)"],
          assumptions=["porcupine v1.3.0 decides linearizability of histories of at most 36 operations; no timeout is used, so no run is inconclusive"]),
 "C42": P([("pipeline", 1)], 1600, 60000, PL_RULE + "non-trivial = the run was fully checked after draining, or Stop landed during submissions",
          ["pl.full-run-checked", "pl.stop-during-submissions"], real=REAL_PL, stubs=STUB_PL, assumptions=["validation stage is not enabled (it needs epoch nonce and KES parameters that match the fixture blocks)"]),
 "C43": P([("pipeline", 1)], 1600, 60000, PL_RULE + "non-trivial = a WaitForDrain call returned nil and was compared with the apply log",
          ["pl.drain-returned"], real=REAL_PL, stubs=STUB_PL),
 "C44": P([("pipeline", 1)], 1600, 60000, PL_RULE + "non-trivial = a Submit failed on context expiry and later submissions were checked",
          ["pl.submit-failed"], expect=["pl.submit-failed", "pl.survived-failed-submission"], real=REAL_PL, stubs=STUB_PL),
 "C25": P([("localrpc", 1)], 1600, 60000,
          "one evaluation = one simulated run of a local-state-query, local-tx-monitor, local-tx-submission or peer-sharing client shared by 1-4 application tasks issuing 1-6 calls each (queries, re-acquires, has-tx/next-tx/sizes, submits, get-peers) against a real server Connection whose callbacks tag every reply (query counter, accept/reject bit of the submitted bytes, number of peers requested, fixed real-transaction mempool); each return value must carry its own request's tag, tags must be unique and consistent with real-time order; distinct = distinct schedule hash; non-trivial = more than one task called the shared client",
          ["rpc.concurrent-callers"], expect=["rpc.concurrent-callers", "rpc.lsq", "rpc.ltm", "rpc.lts", "rpc.ps"], real=REAL_CONN + ["ledger transaction decoding (mempool)"], stubs=STUB_NET + ["application (tagging callbacks)"],
          assumptions=["one-bit tags (local-tx-submission accept/reject) detect a swap with probability 1/2 per occurrence"]),
 "C24": P([("txsub", 3), ("txsub-raw", 1)], 1600, 60000,
          "one evaluation = one simulated run of the tx-submission inbound side (Server.RequestTxIds/RequestTxs, 1-14 rounds, blocking and non-blocking, counts from {0,1,2,3,10,65535} and out-of-range API arguments) against a real outbound side whose callback returns any number of ids (including more than requested) or ErrStopServerProcess; the RequestTxIds messages on the wire are checked against a model acknowledgement window; or of a raw inbound peer sending ack/req counts around and beyond 65535 to a real outbound side; distinct = distinct schedule hash; non-trivial = several request rounds were on the wire or an out-of-range count was sent",
          ["txsub.multi-round", "txsubraw.out-of-range"], expect=["txsub.multi-round", "txsub.done-sent", "txsub.stop-during-non-blocking", "txsub.out-of-range-api-call", "txsubraw.out-of-range", "txsubraw.in-range"], real=REAL_CONN, stubs=STUB_CONN),
 "C21": P([("chainsync", 1)], 800, 30000, CS_RULE, ["cs.pipelined", "cs.clean-stop"], real=REAL_CONN + ["ledger block/header decoding"], stubs=STUB_NET + ["application (model chain behind the server callbacks, recording client callbacks)"],
          assumptions=["a configured pipeline limit of 0 is treated as 'unset' (the library maps it to the default 75)"], budget=(300, 2400)),
 "C22": P([("chainsync", 1)], 800, 30000, CS_RULE + "; C22 checks, per roll-forward callback, block type and bytes (NtC) or header-era-to-block-type and header hash = block hash (NtN, Shelley and later)",
          ["cs.block-shelley", "cs.block-conway", "cs.block-byron"], expect=["cs.block-byron", "cs.block-shelley", "cs.block-allegra", "cs.block-mary", "cs.block-alonzo", "cs.block-babbage", "cs.block-conway"],
          real=REAL_CONN + ["ledger block/header decoding"], stubs=STUB_NET + ["application"],
          assumptions=["input diversity is the repository's real blocks of seven eras with varied tips; the simulator contributes the wire path (multi-segment blocks, pipelining, fragmentation), not input generation (DESIGN 8/C22)"], budget=(300, 2400)),
 "C15": P([("advcalls", 1)], 1600, 60000,
          "one evaluation = one simulated run of a real Connection (NtN client, NtC client or NtN server) whose blocking API call (19 call sequences over chain-sync, block-fetch, local-state-query, local-tx-monitor, local-tx-submission, peer-sharing, tx-submission) is answered by a raw peer with a right reply, wrong-kind reply, surplus reply, malformed bytes, truncated segment, silence or abrupt close; then the connection is ended by the peer, by Close, or both, and 4 more simulated hours pass; distinct = distinct schedule hash; non-trivial = the responder deviated (any behaviour other than 'right')",
          ["advcalls.behaviour.wrong-kind", "advcalls.behaviour.surplus", "advcalls.behaviour.malformed", "advcalls.behaviour.truncated", "advcalls.behaviour.silence", "advcalls.behaviour.close"],
          real=REAL_CONN, stubs=STUB_CONN, budget=(300, 2400)),
 "C17": P([("roles", 1)], 3000, 120000,
          "one evaluation = one simulated run of a real Connection (client/server x NtN/NtC/DMQ x duplex requested or not x peer-sharing flag) against a raw peer that completes the handshake with a tape-chosen version and diffusion flag and then sends one well-formed request or response segment; distinct = distinct schedule hash; non-trivial = the segment tested a role gate or an enabled responder",
          ["roles.request-to-initiator-only", "roles.response-to-responder-only", "roles.request-served"], real=REAL_CONN, stubs=STUB_CONN),
 "C18": P([("hs-pair", 1), ("hs-conn", 1)], 2400, 100000,
          "one evaluation = one simulated handshake between a real handshake client and server over real muxers (random subsets of the NtN/NtC/DMQ version tables, equal or different magics, query flag) or between two real Connections (all option combinations); an independent negotiation function says what both must conclude; distinct = distinct schedule hash; non-trivial = any run (every run negotiates)",
          ["hs.accept", "hs.mismatch", "hs.refused", "hs.query", "hsconn.accept", "hsconn.mismatch", "hsconn.refused", "hsconn.query"], real=REAL_CONN, stubs=STUB_NET + ["application"]),
 "C19": P([("hs-accept", 1)], 3000, 150000,
          "one evaluation = one simulated run of a real initiating Connection (NtN/NtC/DMQ, random options) against a raw responder that answers with AcceptVersion(version, data): proposed, known-but-unproposed or unknown version; data of the version's shape, another shape or malformed; own or foreign magic; distinct = distinct schedule hash; non-trivial = the acceptance was invalid",
          ["hsaccept.invalid"], expect=["hsaccept.invalid", "hsaccept.valid", "hsaccept.unproposed-version"], real=REAL_CONN, stubs=STUB_CONN,
          assumptions=["the deciding dimension is the Byzantine responder (F11); the schedule dimension adds little here (DESIGN 8/C19)"]),
 "C23": P([("bf-range", 1), ("bf-single", 1)], 1600, 60000,
          "one evaluation = one simulated run of a real block-fetch client: range requests against a real server Connection serving 0-5 real blocks of 7 eras per batch (callback order and completion), or a single-block request answered by a raw server with a matching block, another block, no block, an empty batch or several blocks; distinct = distinct schedule hash; non-trivial = a batch completed or a non-matching batch shape was served",
          ["bf.range-complete", "bfsingle.other-block", "bfsingle.empty-batch", "bfsingle.several-blocks", "bfsingle.no-blocks"], real=REAL_CONN + ["ledger block decoding and hashing"], stubs=STUB_CONN),
 "C11": P([("advrecv", 1)], 4000, 200000,
          "one evaluation = one simulated run of one real engine (one of 11 repository state maps, client or server role) against a raw peer sending 1-12 permitted / wrong-state / unknown-type messages and possibly malformed bytes, with a local application that answers from inside the handler; the oracle replays the deterministic merge of both message sequences on the declared state-map data; distinct = distinct schedule hash; non-trivial = at least one message reached the handler or an offending message was processed",
          ["advrecv.handled", "advrecv.offending-message-processed"], expect=["advrecv.handled", "advrecv.offending-message-processed", "advrecv.garbage-after-valid"], real=REAL_ENG, stubs=STUB_ENG + ["remote peer (scripted raw-segment peer)"]),
 "C13": P([("backpressure", 1)], 900, 40000,
          "one evaluation = one simulated run of a real receiving engine with a stalling handler fed by a raw peer over a bounded socket buffer: fast stream of valid messages (sizes up to the state's byte limit), one oversized message, or an endless incomplete CBOR item (read-buffer bound scaled by a knob, the real 16 MiB in part of the thorough tier); distinct = distinct schedule hash; non-trivial = the sender was observed blocked by back-pressure, or the error arm fired",
          ["net.writer-blocked", "bp.oversize", "bp.endless-incomplete"], expect=["bp.fast-valid-complete", "bp.pending-above-half-limit", "bp.oversize", "bp.endless-incomplete", "net.writer-blocked"], real=REAL_ENG, stubs=STUB_ENG + ["remote peer (scripted raw-segment peer)"],
          assumptions=["pending-bytes probe is read at the instrumenter's anchors after each mutation of Protocol.pendingRecvBytes; an independent byte count at the connection cross-checks it"], budget=(240, 2400)),
 "C14": P([("timeout", 1)], 3000, 100000,
          "one evaluation = one simulated run that drives a real engine (repository state map with its declared timeouts, either role) into a chosen state by a lock-step conversation and lets the agency holder move after a delay drawn from {0, T/2, T-10ms, T+10ms, 2T, never} (MustReply: around [135 s, 269 s]); exact simulated time (zero latency, no stalls); distinct = distinct schedule hash; non-trivial = the run reached its target state and evaluated a must-fire or must-not-fire obligation",
          ["timeout.must-fire", "timeout.must-not-fire"], real=REAL_ENG, stubs=STUB_ENG + ["remote peer (scripted raw-segment peer)"]),
 "C16": P([("specwalk", 1)], 6000, 300000,
          "one evaluation = one simulated walk (1-14 messages) of an independent specification automaton through a real engine using the repository's state map and codec; in each visited state a message (60% permitted, 40% any tag of the protocol) is tried from the side the specification gives agency; accept/reject must equal the specification; distinct = distinct schedule hash; non-trivial = the walk observed a rejection or reached the terminal state; coverage counted as distinct (protocol,state,message,sender) triples in probes_hit",
          ["specwalk.rejection-observed", "specwalk.terminal-reached"], real=REAL_ENG + ["message codecs (NewMsgFromCbor) of the ten network-specification protocols"], stubs=STUB_NET + ["remote peer (scripted raw-segment peer)", "application"],
          assumptions=["the specification automata (harness/spec.go) were written from the Ouroboros network specification; spec equality is claimed for handshake, chain-sync, block-fetch, tx-submission, keep-alive, local-tx-submission, local-state-query, local-tx-monitor and peer-sharing only (DESIGN 8/C16)"]),
 "C10": P([("msg", 1)], 1500, 60000,
          "one evaluation = one simulated run of two real protocol engines over real muxers over simnet exchanging 1-3 rounds of up to 30 messages per direction (sizes 12 B .. 3 MiB, 1-3 concurrent sender tasks, slow handlers, fragmentation, bounded socket buffer, stalls); distinct = distinct schedule hash; non-trivial = at least one message spanned several segments or several messages shared one segment",
          ["msg.multi-segment-message", "msg.several-messages-in-one-segment"], real=REAL_ENG, stubs=STUB_ENG),
 "C12": P([("conv", 3), ("conv-neg", 1)], 3000, 150000,
          "one evaluation = one simulated run of a planned conforming conversation (random walk of an independent specification automaton, 2-32 messages, pipelined or lock-step client, replies from the handler or a task) between two real engines using one of 11 repository state maps, or of a forbidden first message; distinct = distinct schedule hash; non-trivial = the client pipelined its requests or a forbidden message was queued",
          ["conv.pipelined", "convneg.chainsync-ntn", "convneg.blockfetch", "convneg.keepalive", "convneg.localstatequery", "convneg.txsubmission"], expect=["conv.pipelined", "conv.chainsync-ntn", "conv.txsubmission", "conv.localtxmonitor"], real=REAL_ENG, stubs=STUB_ENG),
 "C09": P([("mux", 3), ("mux-adv", 1)], 3000, 150000,
          "one evaluation = one simulated run (seeded schedule + fault tape) of two real muxers over simnet with 1-5 registrations, concurrent channel/Send senders and stalling receivers, or of one real muxer fed an offending frame by a raw peer; distinct = distinct schedule hash (sequence of task@site steps and select outcomes); non-trivial = at least one segment was delivered end-to-end or an offending frame was sent",
          ["mux.segment-delivered", "muxadv.zero", "muxadv.segm", "muxadv.wron"], expect=["mux.segment-delivered", "mux.frames-on-wire", "net.writer-blocked", "mux.connection-broken"]),
}
