package sim

import (
	"bytes"
	"errors"
	"fmt"
	"net"
	"time"

	ouroboros "github.com/blinklabs-io/gouroboros"
	"github.com/blinklabs-io/gouroboros/ledger"
	"github.com/blinklabs-io/gouroboros/protocol/localstatequery"
	"github.com/blinklabs-io/gouroboros/protocol/localtxmonitor"
	"github.com/blinklabs-io/gouroboros/protocol/localtxsubmission"
	"github.com/blinklabs-io/gouroboros/protocol/peersharing"
	rt "github.com/blinklabs-io/gouroboros/verifsimrt"
)

// Scenario LOCALRPC (C25): local-state-query, local-tx-monitor,
// local-tx-submission and peer-sharing clients called from 1-4 application
// tasks against real servers whose callbacks tag every reply with the request
// it answers.

func init() {
	register(&Scenario{Name: "localrpc", Setup: localRpcSetup})
}

type rpcCall struct {
	task     int
	what     string
	inv, ret uint64
	tag      int64 // what the call sent / expects
	got      int64 // what it got
	err      error
}

func localRpcSetup(s *rt.Sim, tier string) func() {
	schedCfg(s, true)
	s.Cfg.MaxSteps = 80000
	s.Cfg.MaxStall = 200 * time.Millisecond
	s.Cfg.Horizon = 6 * time.Hour
	return func() {
		ncfg := drawNetCfg(true)
		if ncfg.BufCap > 0 && ncfg.BufCap < 8192 {
			ncfg.BufCap = 8192
		}
		if ncfg.Latency > 20*time.Millisecond {
			ncfg.Latency = 20 * time.Millisecond
		}
		ncfg.Jitter = 0
		pair := NewPair(ncfg)
		proto := oneOf("cfg", "lsq", "lts", "ps", "ltm")
		ntasks := 1 + pick("cfg", 4)
		perTask := 1 + pick("cfg", 6)
		ntn := proto == "ps"
		// tagging servers
		queryCounter := int64(0)
		lsqCfg := localstatequery.NewConfig(
			localstatequery.WithAcquireFunc(func(ctx localstatequery.CallbackContext, target localstatequery.AcquireTarget, re bool) error {
				// the application refuses the points of a fork it does not have (F13): the protocol's
				// ordinary MsgFailure answer
				if p, ok := target.(localstatequery.AcquireSpecificPoint); ok && p.Point.Slot >= 10000 {
					return localstatequery.ErrAcquireFailurePointNotOnChain
				}
				return nil
			}),
			localstatequery.WithReleaseFunc(func(localstatequery.CallbackContext) error { return nil }),
			localstatequery.WithQueryFunc(func(ctx localstatequery.CallbackContext, q localstatequery.QueryWrapper) (any, error) {
				queryCounter++
				if chance("op", 1, 5) {
					sleep(oneOf("op", 10*time.Millisecond, 500*time.Millisecond))
				}
				// the hard-fork "current era" query ([0, [2, [1]]]) is answered with a bare
				// integer: here the tag itself
				if bytes.Equal(q.Cbor(), []byte{0x82, 0x00, 0x82, 0x02, 0x81, 0x01}) {
					return queryCounter, nil
				}
				return []any{1, queryCounter}, nil
			}),
		)
		ltsCfg := localtxsubmission.NewConfig(localtxsubmission.WithSubmitTxFunc(func(ctx localtxsubmission.CallbackContext, tx localtxsubmission.MsgSubmitTxTransaction) error {
			raw, _ := tx.Raw.Content.([]byte)
			if chance("op", 1, 5) {
				sleep(oneOf("op", 10*time.Millisecond, 500*time.Millisecond))
			}
			if len(raw) > 0 && raw[len(raw)-1]&1 == 1 {
				return errors.New("rejected by the tagging server")
			}
			return nil
		}))
		// knob (own stream): a peer-sharing timeout well below the default 60 s; the tagging
		// server sometimes dwells longer than that. A call that runs into the timeout fails (and
		// may take the protocol with it); no *successful* call may ever carry another request's tag
		psShort := rt.Choose("cfg.x", 3) == 2
		psOpts := []peersharing.PeerSharingOptionFunc{}
		if psShort {
			psOpts = append(psOpts, peersharing.WithTimeout(300*time.Millisecond))
		}
		psCfg := peersharing.NewConfig(append(psOpts, peersharing.WithShareRequestFunc(func(ctx peersharing.CallbackContext, amount int) ([]peersharing.PeerAddress, error) {
			if chance("op", 1, 5) {
				sleep(oneOf("op", 10*time.Millisecond, 500*time.Millisecond))
			}
			var out []peersharing.PeerAddress
			for i := 0; i < amount; i++ {
				out = append(out, peersharing.PeerAddress{IP: net.IPv4(10, 0, byte(amount), byte(i)), Port: uint16(3000 + amount)})
			}
			return out, nil
		}))...)
		// mempool of real transactions
		var memTxs []localtxmonitor.TxAndEraId
		var memIds [][]byte
		blk := fixBlocks()[6] // conway
		if b, err := ledger.NewBlockFromCbor(blk.Type, blk.Data); err == nil {
			for i, tx := range b.Transactions() {
				if i >= 3 {
					break
				}
				memTxs = append(memTxs, localtxmonitor.TxAndEraId{EraId: 6, Tx: tx.Cbor()})
				memIds = append(memIds, tx.Hash().Bytes())
			}
		}
		acquires := 0
		ltmCfg := localtxmonitor.NewConfig(localtxmonitor.WithGetMempoolFunc(func(localtxmonitor.CallbackContext) (uint64, uint32, []localtxmonitor.TxAndEraId, error) {
			acquires++
			return uint64(1000 + acquires), 4242, memTxs, nil
		}))
		co := connOpts{ntn: ntn, magic: 42, peerSharing: true, keepAlive: ntn}
		so := connOpts{ntn: ntn, magic: 42, server: true, peerSharing: true}
		extra := []ouroboros.ConnectionOptionFunc{ouroboros.WithLocalStateQueryConfig(lsqCfg), ouroboros.WithLocalTxSubmissionConfig(ltsCfg), ouroboros.WithPeerSharingConfig(psCfg), ouroboros.WithLocalTxMonitorConfig(ltmCfg)}
		var cConn, sConn *ouroboros.Connection
		var cErr, sErr error
		cRet, sRet := false, false
		go func() {
			sConn, sErr = ouroboros.NewConnection(append(so.options(pair.B), extra...)...)
			sRet = true
		}()
		go func() {
			cConn, cErr = ouroboros.NewConnection(append(co.options(pair.A), extra...)...)
			cRet = true
		}()
		for i := 0; i < 600 && !(cRet && sRet); i++ {
			sleep(100 * time.Millisecond)
		}
		if !cRet || !sRet || cErr != nil || sErr != nil {
			rt.Hit("rpc.setup-failed")
			return
		}
		cw, sw := watchConn(cConn), watchConn(sConn)
		kaStop := false
		if !ntn {
			connKeepAlive(&kaStop, cConn, sConn)
		}
		if proto == "ltm" && (len(memTxs) == 0 || cConn.LocalTxMonitor() == nil) {
			proto = "lts"
		}
		// correct use: the shared client is acquired before queries are issued and
		// released only once every caller is done (callers may re-acquire)
		switch proto {
		case "ltm":
			if err := cConn.LocalTxMonitor().Client.Acquire(); err != nil {
				return
			}
		case "lsq":
			q := cConn.LocalStateQuery().Client
			// "across acquire, re-acquire and release" includes acquisitions the server refuses:
			// (1) a refused first acquire, (2) a refused re-acquire (which releases the client);
			// in both cases the call gets its own answer (the failure) and the next acquisition works
			pre := rt.Choose("op.x", 4)
			bad := samplePoint(9000 + uint64(rt.Choose("op.x", 5)))
			refused := ""
			if pre == 3 {
				if err := q.AcquireVolatileTip(); err != nil {
					return
				}
			}
			if pre >= 2 {
				refused = "first acquire"
				if pre == 3 {
					refused = "re-acquire"
				}
				rt.Hit("rpc.lsq-refused-" + refused)
				err := q.Acquire(&bad)
				if !errors.Is(err, localstatequery.ErrAcquireFailurePointNotOnChain) {
					rt.Violate("C25/reply-not-own/lsq-acquire", "lsq: the server refused the point of a %s (MsgFailure, point not on chain) but the call returned %v (client errors %v, server errors %v)", refused, err, cw.errs, sw.errs)
					return
				}
			}
			if err := q.AcquireVolatileTip(); err != nil {
				if refused != "" {
					sleep(time.Second)
					rt.Violate("C25/error-in-conforming-use/lsq", "lsq: after a refused %s (answered with MsgFailure) the next AcquireVolatileTip failed: %v (client errors %v, server errors %v)", refused, err, cw.errs, sw.errs)
				}
				return
			}
		}
		var calls []*rpcCall
		fin := make(chan struct{}, ntasks)
		txCounter := 0
		for task := 0; task < ntasks; task++ {
			task := task
			go func() {
				defer func() { fin <- struct{}{} }()
				for i := 0; i < perTask; i++ {
					c := &rpcCall{task: task}
					switch proto {
					case "lsq":
						q := cConn.LocalStateQuery().Client
						switch pick("op", 6) {
						case 0:
							c.what = "acquire"
							c.inv = rt.Stamp()
							// the third acquire target of the specification (own stream)
							if rt.Choose("op.y", 3) == 2 {
								rt.Hit("rpc.lsq-acquire-immutable-tip")
								c.err = q.AcquireImmutableTip()
							} else {
								c.err = q.AcquireVolatileTip()
							}
						case 1:
							// another kind of query (the client has an era cache: the answer must
							// still come from the request this call sent)
							c.what = "query"
							c.inv = rt.Stamp()
							era, err := q.GetCurrentEra()
							c.got, c.err = int64(era), err
						default:
							c.what = "query"
							c.inv = rt.Stamp()
							c.got, c.err = q.GetChainBlockNo()
						}
					case "lts":
						txCounter++
						bit := byte(pick("op", 2))
						tx := []byte{0x82, 0x18, byte(txCounter), bit}
						c.what, c.tag = "submit", int64(bit)
						c.inv = rt.Stamp()
						c.err = cConn.LocalTxSubmission().Client.SubmitTx(5, tx)
					case "ps":
						amount := 1 + task*10 + pick("op", 9) // distinct per task
						c.what, c.tag = "getpeers", int64(amount)
						c.inv = rt.Stamp()
						peers, err := cConn.PeerSharing().Client.GetPeers(uint8(amount))
						c.err = err
						c.got = int64(len(peers))
						if err == nil && len(peers) > 0 && int(peers[0].Port) != 3000+len(peers) {
							c.got = -1
						}
					case "ltm":
						m := cConn.LocalTxMonitor().Client
						switch pick("op", 6) {
						case 0:
							c.what = "acquire"
							c.inv = rt.Stamp()
							c.err = m.Acquire()
						case 2, 1:
							k := pick("op", len(memIds))
							c.what, c.tag = "hastx-present", 1
							c.inv = rt.Stamp()
							ok, err := m.HasTx(memIds[k])
							c.err = err
							if ok {
								c.got = 1
							}
						case 3:
							c.what, c.tag = "hastx-absent", 0
							c.inv = rt.Stamp()
							ok, err := m.HasTx(bytes.Repeat([]byte{0xee}, 32))
							c.err = err
							if ok {
								c.got = 1
							}
						case 4:
							c.what, c.tag = "sizes", int64(len(memTxs))
							c.inv = rt.Stamp()
							capacity, _, n, err := m.GetSizes()
							c.err = err
							c.got = int64(n)
							if err == nil && capacity != 4242 {
								c.got = -1
							}
						default:
							c.what = "nexttx"
							c.inv = rt.Stamp()
							tx, err := m.NextTx()
							c.err = err
							c.got = -1
							if tx == nil {
								c.got = -2 // end of mempool
							}
							for k := range memTxs {
								if bytes.Equal(tx, memTxs[k].Tx) {
									c.got = int64(k)
								}
							}
						}
					}
					c.ret = rt.Stamp()
					calls = append(calls, c)
					if chance("op", 1, 4) {
						sleep(oneOf("op", time.Millisecond, 200*time.Millisecond, 3*time.Second))
					}
				}
			}()
		}
		done := 0
		for i := 0; i < 6000 && done < ntasks; i++ {
			select {
			case <-fin:
				done++
			case <-time.After(200 * time.Millisecond):
			}
		}
		if pair.A.Deadline+pair.B.Deadline > 0 {
			return
		}
		desc := fmt.Sprintf("%s, %d tasks x %d calls", proto, ntasks, perTask)
		rt.Hit("rpc." + proto)
		if ntasks > 1 {
			rt.Hit("rpc.concurrent-callers")
		}
		if done < ntasks {
			rt.Violate("C25/call-never-returns/"+proto, "%s: %d of %d caller tasks finished within 20 simulated minutes (client errors %v, server errors %v)", desc, done, ntasks, cw.errs, sw.errs)
			return
		}
		var relErr error
		switch proto {
		case "ltm":
			relErr = cConn.LocalTxMonitor().Client.Release()
		case "lsq":
			relErr = cConn.LocalStateQuery().Client.Release()
		}
		sleep(time.Second)
		if proto == "ps" && psShort {
			rt.Hit("rpc.ps-short-timeout")
		} else if len(cw.errs)+len(sw.errs) > 0 || relErr != nil {
			rt.Violate("C25/error-in-conforming-use/"+proto, "%s: client errors %v, server errors %v, release error %v", desc, cw.errs, sw.errs, relErr)
			return
		}
		switch proto {
		case "lsq":
			seen := map[int64]bool{}
			var qs []*rpcCall
			for _, c := range calls {
				if c.err != nil {
					rt.Violate("C25/error-in-conforming-use/lsq", "%s: %s failed: %v", desc, c.what, c.err)
					return
				}
				if c.what != "query" {
					continue
				}
				if c.got < 1 || c.got > queryCounter || seen[c.got] {
					rt.Violate("C25/reply-not-own/lsq", "%s: a query returned tag %d (server issued 1..%d, duplicates: %v)", desc, c.got, queryCounter, seen[c.got])
					return
				}
				seen[c.got] = true
				qs = append(qs, c)
			}
			for _, a := range qs {
				for _, b := range qs {
					if a.ret < b.inv && a.got > b.got {
						rt.Violate("C25/reply-not-own/lsq", "%s: a query that returned before another was invoked got the later reply (tags %d and %d)", desc, a.got, b.got)
						return
					}
				}
			}
		case "lts":
			for _, c := range calls {
				if (c.tag == 1) != (c.err != nil) {
					rt.Violate("C25/reply-not-own/lts", "%s: SubmitTx of a transaction tagged %d returned %v", desc, c.tag, c.err)
					return
				}
			}
		case "ps":
			for _, c := range calls {
				if c.err != nil && psShort {
					continue
				}
				if c.err != nil {
					rt.Violate("C25/error-in-conforming-use/ps", "%s: GetPeers(%d) failed: %v", desc, c.tag, c.err)
					return
				}
				if c.got != c.tag {
					rt.Violate("C25/reply-not-own/ps", "%s: GetPeers(%d) returned the reply to a request for %d peers", desc, c.tag, c.got)
					return
				}
			}
		case "ltm":
			for _, c := range calls {
				if c.err != nil {
					rt.Violate("C25/error-in-conforming-use/ltm", "%s: %s failed: %v", desc, c.what, c.err)
					return
				}
				switch c.what {
				case "hastx-present", "hastx-absent", "sizes":
					if c.got != c.tag {
						rt.Violate("C25/reply-not-own/ltm", "%s: %s returned %d, expected %d", desc, c.what, c.got, c.tag)
						return
					}
				case "nexttx":
					if c.got == -1 {
						rt.Violate("C25/reply-not-own/ltm", "%s: NextTx returned bytes that are not a mempool transaction", desc)
						return
					}
				}
			}
		}
		cConn.Close()
		sConn.Close()
	}
}
