#!/bin/bash
# seedtest2.sh <seed-id> <property> <patch.diff> <demo test file> <package dir for the demo> <go test -run regexp> [extra check args]
# Like seedtest.sh, but the checks run against the scratch worktree itself (VERIF_REPO), so /repo stays untouched
# and long-running checks of /repo are not disturbed. The final confirmation of a kept change is still done
# with mutcheck.sh (git -C /repo apply ... ; ./check ; git -C /repo checkout -- .).
set -u
ID=$1; PROP=$2; PATCH=$3; DEMO=$4; PKG=$5; RUN=$6; shift 6
. /verif/env.sh; export PATH=$(dirname $VERIF_GO):$PATH
WT=/tmp/wt-seed-$ID
git -C /repo worktree remove --force $WT >/dev/null 2>&1
git -C /repo worktree add -q --detach $WT HEAD || exit 2
cd $WT
echo "--- demo WITHOUT the change"
cp $DEMO $PKG/zz_seed_demo_test.go
go test -count=1 -run "$RUN" ./$PKG/ 2>&1 | tail -3
git apply $PATCH || { echo "patch does not apply"; cd /; git -C /repo worktree remove --force $WT; exit 2; }
echo "--- build + existing tests WITH the change ($PKG and ./protocol ./muxer .)"
rm $PKG/zz_seed_demo_test.go
go build ./... && go test -count=1 ./$PKG/ ./protocol/ ./muxer/ . 2>&1 | tail -5
echo "--- demo WITH the change"
cp $DEMO $PKG/zz_seed_demo_test.go
go test -count=1 -run "$RUN" ./$PKG/ 2>&1 | grep -v "^\s" | tail -6
rm $PKG/zz_seed_demo_test.go
cd /verif
echo "--- ./check $PROP against the worktree with the change"
mkdir -p /var/tmp/seed-evidence
VERIF_REPO=$WT VERIF_EVIDENCE_DIR=/var/tmp/seed-evidence ./check $PROP "$@" 2>&1 | grep -v "^KNOWN-FINDING\|^instr:\|^check: built" | cut -c1-330 | tail -8
git -C /repo worktree remove --force $WT
