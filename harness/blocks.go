//verif:noinstr

package sim

import (
	"sync"

	"github.com/blinklabs-io/gouroboros/ledger"
	lcommon "github.com/blinklabs-io/gouroboros/ledger/common"
	pcommon "github.com/blinklabs-io/gouroboros/protocol/common"
)

// Real blocks of every era from the repository's fixtures.

type fixBlock struct {
	Era   string
	Byron bool
	Type  uint
	Data  []byte
	Hash  []byte
	Slot  uint64
	Point pcommon.Point
}

var fixBlocksOnce sync.Once
var fixBlocksList []fixBlock

func fixBlocks() []fixBlock {
	fixBlocksOnce.Do(func() {
		for _, f := range []struct {
			era  string
			typ  uint
			file string
		}{
			{"byron", ledger.BlockTypeByronMain, "internal/testdata/byron_block.hex"},
			{"shelley", ledger.BlockTypeShelley, "internal/testdata/shelley_block.hex"},
			{"allegra", ledger.BlockTypeAllegra, "internal/testdata/allegra_block.hex"},
			{"mary", ledger.BlockTypeMary, "internal/testdata/mary_block.hex"},
			{"alonzo", ledger.BlockTypeAlonzo, "internal/testdata/alonzo_block.hex"},
			{"babbage", ledger.BlockTypeBabbage, "internal/testdata/babbage_block.hex"},
			{"conway", ledger.BlockTypeConway, "internal/testdata/conway_block.hex"},
			// appended later: the first seven keep their positions
			{"dijkstra", ledger.BlockTypeDijkstra, "ledger/dijkstra/testdata/musashi_dijkstra_block.hex"},
			{"shelley-testnet", ledger.BlockTypeShelley, "protocol/chainsync/testdata/shelley_block_testnet_02b1c561715da9e540411123a6135ee319b02f60b9a11a603d3305556c04329f.hex"},
			{"byron-ebb", ledger.BlockTypeByronEbb, "protocol/chainsync/testdata/byron_ebb_testnet_8f8602837f7c6f8b8867dd1cbc1842cf51a27eaed2c70ef48325d00f8efb320f.hex"},
			{"byron-testnet", ledger.BlockTypeByronMain, "protocol/chainsync/testdata/byron_main_block_testnet_f38aa5e8cf0b47d1ffa8b2385aa2d43882282db2ffd5ac0e3dadec1a6f2ecf08.hex"},
		} {
			data := fixtureHex(f.file)
			b, err := ledger.NewBlockFromCbor(f.typ, data, lcommon.VerifyConfig{SkipBodyHashValidation: true})
			if err != nil {
				panic("harness: fixture block " + f.file + " does not decode: " + err.Error())
			}
			h := b.Hash().Bytes()
			fixBlocksList = append(fixBlocksList, fixBlock{Era: f.era, Byron: f.typ == ledger.BlockTypeByronMain || f.typ == ledger.BlockTypeByronEbb, Type: f.typ, Data: data, Hash: h, Slot: b.SlotNumber(), Point: pcommon.NewPoint(b.SlotNumber(), h)})
		}
	})
	return fixBlocksList
}
