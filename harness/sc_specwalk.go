package sim

import (
	"fmt"
	"sort"
	"strings"
	"time"

	"github.com/blinklabs-io/gouroboros/muxer"
	"github.com/blinklabs-io/gouroboros/protocol"
	rt "github.com/blinklabs-io/gouroboros/verifsimrt"
)

// Scenario SPEC-WALK (C16): a real engine with the repository's state map AND
// codec, walked by an independent specification automaton. In every visited
// state a message is tried from the side the specification gives agency to;
// the implementation must accept exactly what the specification permits.

func init() {
	register(&Scenario{Name: "specwalk", Setup: specWalkSetup})
}

func specPermits(s specState, t specTrans) (specTrans, bool) {
	for _, p := range s.Trans {
		if p.Msg == t.Msg && p.Variant == t.Variant {
			return p, true
		}
	}
	return specTrans{}, false
}

// specPath returns a shortest sequence of permitted transitions from the
// initial state to target (BFS in sorted order, deterministic).
func specPath(sp *specProto, target string) ([]specTrans, bool) {
	type node struct {
		st   string
		path []specTrans
	}
	queue := []node{{sp.Init, nil}}
	seen := map[string]bool{sp.Init: true}
	for len(queue) > 0 {
		n := queue[0]
		queue = queue[1:]
		if n.st == target {
			return n.path, true
		}
		for _, t := range sp.States[n.st].Trans {
			if !seen[t.To] {
				seen[t.To] = true
				queue = append(queue, node{t.To, append(append([]specTrans(nil), n.path...), t)})
			}
		}
	}
	return nil, false
}

func specWalkSetup(s *rt.Sim, tier string) func() {
	schedCfg(s, true)
	s.Cfg.MaxSteps = 40000
	s.Cfg.MaxStall = 30 * time.Second
	s.Cfg.Horizon = 12 * time.Hour
	installProbes(s)
	return func() {
		impls := protoImpls()
		impl := impls[pick("cfg", len(impls))]
		sp := impl.Spec
		localRole := oneOf("cfg", protocol.ProtocolRoleClient, protocol.ProtocolRoleServer)
		pair := NewPair(drawNetCfg(false))
		m := muxer.New(pair.A)
		var merrs []error
		go func() {
			for e := range m.ErrorChan() {
				merrs = append(merrs, e)
				rt.Log("muxer error: %v", e)
			}
		}()
		// knob (own stream): earlier in this process the library's own client and server objects
		// of this protocol were constructed for a connection that had negotiated some other
		// protocol version (as Connection does after every handshake). That must leave the
		// protocol's state machine as it is for the conversation walked now. The package-level
		// map is put back at the end of the run, so that runs of one worker stay independent.
		if rt.Choose("cfg.v", 3) == 2 {
			type savedEntry struct {
				hdr  []protocol.StateTransition
				vals []protocol.StateTransition
			}
			saved := map[protocol.State]savedEntry{}
			for k, e := range impl.Map {
				saved[k] = savedEntry{e.Transitions, append([]protocol.StateTransition(nil), e.Transitions...)}
			}
			live := impl.Map
			defer func() {
				for k := range live {
					if _, ok := saved[k]; !ok {
						delete(live, k)
					}
				}
				for k, sv := range saved {
					copy(sv.hdr, sv.vals)
					e := live[k]
					e.Transitions = sv.hdr
					live[k] = e
				}
			}()
			vers := protocol.GetProtocolVersionsNtC()
			if impl.Mode == protocol.ProtocolModeNodeToNode {
				vers = protocol.GetProtocolVersionsNtN()
			}
			v := vers[rt.Choose("cfg.v", len(vers))]
			earlierInstances(impl.Label, protocol.ProtocolOptions{Muxer: muxer.New(NewPair(&NetCfg{}).A), Mode: impl.Mode, Version: v, ErrorChan: make(chan error, 16)})
			rt.Hit("specwalk.earlier-instance-of-another-version")
			rt.Log("earlier instance of %s constructed for protocol version %d", impl.Label, v)
		}
		sm := stripTimeouts(impl.Map)
		var init protocol.State
		found := false
		for _, k := range stateKeys(sm) {
			if k.Name == sp.Init {
				init, found = k, true
			}
		}
		if !found {
			rt.Violate("C16/initial-state-missing", "%s: the state map has no state named %s", impl.Label, sp.Init)
			return
		}
		ep := newEndpoint("L:"+impl.Label, m, impl.Id, sm, init, localRole, impl.Mode, impl.FromCbor)
		peer := newRawPeer(pair.B)
		peerIsResponder := localRole == protocol.ProtocolRoleClient
		peer.keepAlive(m, peerIsResponder)
		ep.p.Start()
		m.Start()
		localSide := agClient
		if localRole == protocol.ProtocolRoleServer {
			localSide = agServer
		}
		wireCount := func() int {
			ms, _, _ := splitMessages(peer.stream(impl.Id, !peerIsResponder))
			return len(ms)
		}
		ss := sp.Init
		steps := 1 + pick("cfg", 14)
		// half of the runs aim at one (state, message) pair chosen uniformly from
		// all pairs of the specification, reached by a shortest permitted path, so
		// that every pair is tried many times per check; the other half walk at random
		var forced []specTrans
		if chance("cfg", 1, 2) {
			var names []string
			for n, st := range sp.States {
				if st.Agency != agNone {
					names = append(names, n)
				}
			}
			sort.Strings(names)
			target := names[pick("cfg", len(names))]
			if path, ok := specPath(sp, target); ok {
				forced = append(path, sp.AllMsgs[pick("cfg", len(sp.AllMsgs))])
				if steps < len(forced) {
					steps = len(forced)
				}
				rt.Hit("specwalk.targeted")
			}
		}
		var trail []string
		for step := 0; step < steps; step++ {
			st := sp.States[ss]
			if st.Agency == agNone {
				break
			}
			var t specTrans
			if step < len(forced) {
				t = forced[step]
			} else if len(st.Trans) > 0 && pick("op", 10) < 6 {
				t = st.Trans[pick("op", len(st.Trans))]
			} else {
				t = sp.AllMsgs[pick("op", len(sp.AllMsgs))]
			}
			perm, permitted := specPermits(st, t)
			if permitted {
				t = perm
			}
			fromLocal := st.Agency == localSide
			who := "peer"
			if fromLocal {
				who = "local"
			}
			trail = append(trail, fmt.Sprintf("%s:%s@%s", who, t.Name, ss))
			rt.Hit(fmt.Sprintf("triple:%s/%s/%s/%s", impl.Label, ss, t.Name, who))
			desc := fmt.Sprintf("%s %s, trail %v", impl.Label, roleName(localRole), trail)
			h0, w0, e0 := len(ep.handled), wireCount(), len(ep.errs)
			if fromLocal {
				msg := sampleMsg(impl.Label, t.Msg, t.Variant, uint64(step))
				if err := ep.p.SendMessage(msg); err != nil && permitted {
					rt.Violate("C16/rejects-spec-permitted", "%s: SendMessage(%s) in state %s failed: %v", desc, t.Name, ss, err)
					return
				}
			} else {
				if err := peer.sendMsg(impl.Id, peerIsResponder, sampleBytes(impl.Label, t.Msg, t.Variant, uint64(step))); err != nil {
					return
				}
			}
			accepted, rejected := false, false
			for i := 0; i < 600; i++ {
				sleep(time.Second)
				if len(ep.errs) > e0 || len(merrs) > 0 {
					rejected = true
					break
				}
				if (fromLocal && wireCount() > w0) || (!fromLocal && len(ep.handled) > h0) {
					accepted = true
					break
				}
			}
			if pair.A.Deadline > 0 {
				rt.Hit("specwalk.inconclusive-read-deadline")
				return
			}
			switch {
			case permitted && rejected:
				cls := "C16/rejects-spec-permitted"
				if len(ep.errs) > e0 && strings.Contains(ep.errs[len(ep.errs)-1].Error(), "decode error") {
					cls = "C16/codec-cannot-decode-permitted-message"
				}
				rt.Violate(cls, "%s: the specification permits %s from the %s in state %s, the implementation reported %v %v", desc, t.Name, who, ss, ep.errs, merrs)
				return
			case permitted && !accepted:
				rt.Violate("C16/spec-permitted-not-accepted", "%s: the specification permits %s from the %s in state %s; after 10 simulated minutes it was neither accepted nor rejected (agency mismatch?)", desc, t.Name, who, ss)
				return
			case !permitted && accepted:
				rt.Violate("C16/accepts-unpermitted", "%s: the specification does not permit %s from the %s in state %s, the implementation accepted it", desc, t.Name, who, ss)
				return
			case !permitted && !rejected:
				rt.Violate("C16/unpermitted-not-rejected", "%s: %s from the %s in state %s is not permitted, yet no error was reported within 10 simulated minutes", desc, t.Name, who, ss)
				return
			}
			if !permitted {
				rt.Hit("specwalk.rejection-observed")
				break
			}
			ss = t.To
		}
		// terminal state: nothing is accepted any more
		if sp.States[ss].Agency == agNone && len(ep.errs) == 0 {
			rt.Hit("specwalk.terminal-reached")
			h0, w0 := len(ep.handled), wireCount()
			t := sp.AllMsgs[pick("op", len(sp.AllMsgs))]
			_ = peer.sendMsg(impl.Id, peerIsResponder, sampleBytes(impl.Label, t.Msg, t.Variant, 77))
			_ = ep.p.SendMessage(sampleMsg(impl.Label, t.Msg, t.Variant, 78))
			sleep(5 * time.Minute)
			if len(ep.handled) > h0 || wireCount() > w0 {
				rt.Violate("C16/terminal-state-accepts", "%s %s trail %v: in the terminal state a further %s was accepted", impl.Label, roleName(localRole), trail, t.Name)
				return
			}
		}
		peer.close()
		ep.p.Stop()
		m.Stop()
	}
}
