//verif:noinstr

package sim

import (
	"github.com/blinklabs-io/gouroboros/protocol"
	"github.com/blinklabs-io/gouroboros/protocol/blockfetch"
	"github.com/blinklabs-io/gouroboros/protocol/chainsync"
	"github.com/blinklabs-io/gouroboros/protocol/handshake"
	"github.com/blinklabs-io/gouroboros/protocol/keepalive"
	"github.com/blinklabs-io/gouroboros/protocol/localstatequery"
	"github.com/blinklabs-io/gouroboros/protocol/localtxmonitor"
	"github.com/blinklabs-io/gouroboros/protocol/localtxsubmission"
	"github.com/blinklabs-io/gouroboros/protocol/peersharing"
	"github.com/blinklabs-io/gouroboros/protocol/txsubmission"
)

// Independent encoding of the mini-protocol automata of the Ouroboros network
// specification ("The Shelley Networking Protocol", ch. 3, and the CDDL message
// tags). Written from the specification, NOT read out of the repository's state
// maps: states, who has agency, permitted messages (wire tag, plus a variant
// where one tag covers two transitions), successor states, terminal state.

const (
	agNone   = 0
	agClient = 1
	agServer = 2
)

type specTrans struct {
	Msg     uint8
	Variant int // txsubmission RequestTxIds: 1 = blocking, 0 = non-blocking
	To      string
	Name    string
}

type specState struct {
	Agency int
	Trans  []specTrans
}

type specProto struct {
	Name   string
	Init   string
	States map[string]specState
	// wire tags that exist in the protocol (any state)
	AllMsgs []specTrans
}

var specHandshake = &specProto{Name: "handshake", Init: "Propose", States: map[string]specState{
	"Propose": {agClient, []specTrans{{0, 0, "Confirm", "ProposeVersions"}}},
	"Confirm": {agServer, []specTrans{{1, 0, "Done", "AcceptVersion"}, {2, 0, "Done", "Refuse"}, {3, 0, "Done", "QueryReply"}}},
	"Done":    {agNone, nil},
}}

var specChainSync = &specProto{Name: "chainsync", Init: "Idle", States: map[string]specState{
	"Idle":      {agClient, []specTrans{{0, 0, "CanAwait", "RequestNext"}, {4, 0, "Intersect", "FindIntersect"}, {7, 0, "Done", "Done"}}},
	"CanAwait":  {agServer, []specTrans{{1, 0, "MustReply", "AwaitReply"}, {2, 0, "Idle", "RollForward"}, {3, 0, "Idle", "RollBackward"}}},
	"MustReply": {agServer, []specTrans{{2, 0, "Idle", "RollForward"}, {3, 0, "Idle", "RollBackward"}}},
	"Intersect": {agServer, []specTrans{{5, 0, "Idle", "IntersectFound"}, {6, 0, "Idle", "IntersectNotFound"}}},
	"Done":      {agNone, nil},
}}

var specBlockFetch = &specProto{Name: "blockfetch", Init: "Idle", States: map[string]specState{
	"Idle":      {agClient, []specTrans{{0, 0, "Busy", "RequestRange"}, {1, 0, "Done", "ClientDone"}}},
	"Busy":      {agServer, []specTrans{{2, 0, "Streaming", "StartBatch"}, {3, 0, "Idle", "NoBlocks"}}},
	"Streaming": {agServer, []specTrans{{4, 0, "Streaming", "Block"}, {5, 0, "Idle", "BatchDone"}}},
	"Done":      {agNone, nil},
}}

var specTxSubmission = &specProto{Name: "txsubmission", Init: "Init", States: map[string]specState{
	"Init":             {agClient, []specTrans{{6, 0, "Idle", "Init"}}},
	"Idle":             {agServer, []specTrans{{0, 1, "TxIdsBlocking", "RequestTxIds(blocking)"}, {0, 0, "TxIdsNonBlocking", "RequestTxIds(non-blocking)"}, {2, 0, "Txs", "RequestTxs"}}},
	"TxIdsBlocking":    {agClient, []specTrans{{1, 0, "Idle", "ReplyTxIds"}, {4, 0, "Done", "Done"}}},
	"TxIdsNonBlocking": {agClient, []specTrans{{1, 0, "Idle", "ReplyTxIds"}}},
	"Txs":              {agClient, []specTrans{{3, 0, "Idle", "ReplyTxs"}}},
	"Done":             {agNone, nil},
}}

var specKeepAlive = &specProto{Name: "keepalive", Init: "Client", States: map[string]specState{
	"Client": {agClient, []specTrans{{0, 0, "Server", "KeepAlive"}, {2, 0, "Done", "Done"}}},
	"Server": {agServer, []specTrans{{1, 0, "Client", "KeepAliveResponse"}}},
	"Done":   {agNone, nil},
}}

var specLocalTxSubmission = &specProto{Name: "localtxsubmission", Init: "Idle", States: map[string]specState{
	"Idle": {agClient, []specTrans{{0, 0, "Busy", "SubmitTx"}, {3, 0, "Done", "Done"}}},
	"Busy": {agServer, []specTrans{{1, 0, "Idle", "AcceptTx"}, {2, 0, "Idle", "RejectTx"}}},
	"Done": {agNone, nil},
}}

var specLocalStateQuery = &specProto{Name: "localstatequery", Init: "Idle", States: map[string]specState{
	"Idle":      {agClient, []specTrans{{0, 0, "Acquiring", "Acquire"}, {8, 0, "Acquiring", "AcquireVolatileTip"}, {10, 0, "Acquiring", "AcquireImmutableTip"}, {7, 0, "Done", "Done"}}},
	"Acquiring": {agServer, []specTrans{{1, 0, "Acquired", "Acquired"}, {2, 0, "Idle", "Failure"}}},
	"Acquired":  {agClient, []specTrans{{3, 0, "Querying", "Query"}, {6, 0, "Acquiring", "ReAcquire"}, {9, 0, "Acquiring", "ReAcquireVolatileTip"}, {11, 0, "Acquiring", "ReAcquireImmutableTip"}, {5, 0, "Idle", "Release"}}},
	"Querying":  {agServer, []specTrans{{4, 0, "Acquired", "Result"}}},
	"Done":      {agNone, nil},
}}

// local-tx-monitor: the busy state is indexed by the kind of the pending
// request; a reply is only valid for the request it answers.
var specLocalTxMonitor = &specProto{Name: "localtxmonitor", Init: "Idle", States: map[string]specState{
	"Idle":         {agClient, []specTrans{{1, 0, "Acquiring", "Acquire"}, {0, 0, "Done", "Done"}}},
	"Acquiring":    {agServer, []specTrans{{2, 0, "Acquired", "Acquired"}}},
	"Acquired":     {agClient, []specTrans{{1, 0, "Acquiring", "AwaitAcquire"}, {3, 0, "Idle", "Release"}, {5, 0, "BusyNextTx", "NextTx"}, {7, 0, "BusyHasTx", "HasTx"}, {9, 0, "BusyGetSizes", "GetSizes"}}},
	"BusyNextTx":   {agServer, []specTrans{{6, 0, "Acquired", "ReplyNextTx"}}},
	"BusyHasTx":    {agServer, []specTrans{{8, 0, "Acquired", "ReplyHasTx"}}},
	"BusyGetSizes": {agServer, []specTrans{{10, 0, "Acquired", "ReplyGetSizes"}}},
	"Done":         {agNone, nil},
}}

var specPeerSharing = &specProto{Name: "peersharing", Init: "Idle", States: map[string]specState{
	"Idle": {agClient, []specTrans{{0, 0, "Busy", "ShareRequest"}, {2, 0, "Done", "Done"}}},
	"Busy": {agServer, []specTrans{{1, 0, "Idle", "SharePeers"}}},
	"Done": {agNone, nil},
}}

// leios-notify: used only to drive a conforming raw responder in ADV-CALLS (the
// automaton is the draft's request/notification loop; C16 does not claim it).
var specLeiosNotify = &specProto{Name: "leiosnotify", Init: "Idle", States: map[string]specState{
	"Idle": {agClient, []specTrans{{0, 0, "Busy", "NotificationRequestNext"}, {5, 0, "Done", "Done"}}},
	"Busy": {agServer, []specTrans{{2, 0, "Idle", "BlockOffer"}}},
	"Done": {agNone, nil},
}}

// leios-votes with one vote per request (the harness configures RequestNextCount 1): like
// leios-notify, only used to drive a conforming raw responder in ADV-CALLS.
var specLeiosVotes = &specProto{Name: "leiosvotes", Init: "Idle", States: map[string]specState{
	"Idle": {agClient, []specTrans{{0, 0, "Busy", "VotesRequestNext"}, {2, 0, "Done", "Done"}}},
	"Busy": {agServer, []specTrans{{1, 0, "Idle", "Vote"}}},
	"Done": {agNone, nil},
}}

func init() {
	for _, sp := range []*specProto{specLeiosVotes, specLeiosNotify, specHandshake, specChainSync, specBlockFetch, specTxSubmission, specKeepAlive, specLocalTxSubmission, specLocalStateQuery, specLocalTxMonitor, specPeerSharing} {
		seen := map[[2]int]bool{}
		for _, name := range sortedKeys(sp.States) {
			for _, t := range sp.States[name].Trans {
				k := [2]int{int(t.Msg), t.Variant}
				if !seen[k] {
					seen[k] = true
					sp.AllMsgs = append(sp.AllMsgs, t)
				}
			}
		}
	}
}

func sortedKeys[V any](m map[string]V) []string {
	ks := make([]string, 0, len(m))
	for k := range m {
		ks = append(ks, k)
	}
	// insertion sort; tiny inputs
	for i := 1; i < len(ks); i++ {
		for j := i; j > 0 && ks[j] < ks[j-1]; j-- {
			ks[j], ks[j-1] = ks[j-1], ks[j]
		}
	}
	return ks
}

// protoImpl binds a specification automaton to the repository's state map data.
type protoImpl struct {
	Spec     *specProto
	Label    string
	Id       uint16
	Map      protocol.StateMap
	Init     protocol.State
	Mode     protocol.ProtocolMode
	FromCbor protocol.MessageFromCborFunc
}

func stateByName(m protocol.StateMap, name string) protocol.State {
	for s := range m {
		if s.Name == name {
			return s
		}
	}
	panic("harness: state " + name + " not found in the repository's state map")
}

func protoImpls() []*protoImpl {
	return []*protoImpl{
		{Spec: specHandshake, Label: "handshake-ntn", Id: handshake.ProtocolId, Map: handshake.StateMapNtN, Mode: protocol.ProtocolModeNodeToNode, FromCbor: handshake.NewMsgFromCbor},
		{Spec: specHandshake, Label: "handshake-ntc", Id: handshake.ProtocolId, Map: handshake.StateMapNtC, Mode: protocol.ProtocolModeNodeToClient, FromCbor: handshake.NewMsgFromCbor},
		{Spec: specChainSync, Label: "chainsync-ntn", Id: chainsync.ProtocolIdNtN, Map: chainsync.StateMapNtN, Mode: protocol.ProtocolModeNodeToNode, FromCbor: chainsync.NewMsgFromCborNtN},
		{Spec: specChainSync, Label: "chainsync-ntc", Id: chainsync.ProtocolIdNtC, Map: chainsync.StateMapNtC, Mode: protocol.ProtocolModeNodeToClient, FromCbor: chainsync.NewMsgFromCborNtC},
		{Spec: specBlockFetch, Label: "blockfetch", Id: blockfetch.ProtocolId, Map: blockfetch.StateMap, Mode: protocol.ProtocolModeNodeToNode, FromCbor: blockfetch.NewMsgFromCbor},
		{Spec: specTxSubmission, Label: "txsubmission", Id: txsubmission.ProtocolId, Map: txsubmission.StateMap, Mode: protocol.ProtocolModeNodeToNode, FromCbor: txsubmission.NewMsgFromCbor},
		{Spec: specKeepAlive, Label: "keepalive", Id: keepalive.ProtocolId, Map: keepalive.StateMap, Mode: protocol.ProtocolModeNodeToNode, FromCbor: keepalive.NewMsgFromCbor},
		{Spec: specLocalTxSubmission, Label: "localtxsubmission", Id: localtxsubmission.ProtocolId, Map: localtxsubmission.StateMap, Mode: protocol.ProtocolModeNodeToClient, FromCbor: localtxsubmission.NewMsgFromCbor},
		{Spec: specLocalStateQuery, Label: "localstatequery", Id: localstatequery.ProtocolId, Map: localstatequery.StateMap, Mode: protocol.ProtocolModeNodeToClient, FromCbor: localstatequery.NewMsgFromCbor},
		{Spec: specLocalTxMonitor, Label: "localtxmonitor", Id: localtxmonitor.ProtocolId, Map: localtxmonitor.StateMap, Mode: protocol.ProtocolModeNodeToClient, FromCbor: localtxmonitor.NewMsgFromCbor},
		{Spec: specPeerSharing, Label: "peersharing", Id: peersharing.ProtocolId, Map: peersharing.StateMap, Mode: protocol.ProtocolModeNodeToNode, FromCbor: peersharing.NewMsgFromCbor},
	}
}
