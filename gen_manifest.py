#!/usr/bin/env python3
"""Regenerates MANIFEST.json from props.py (checks) and the fixed not_applicable list."""
import json, sys
sys.path.insert(0, '/verif')
from props import PROPS
m = json.load(open('/verif/MANIFEST.json'))
level_text = {
 "C09": "seeded search over sender interleavings, read fragmentations, socket-buffer sizes, stalls, connection faults and a receiver unregistering in mid-stream for two real muxers, plus Byzantine frames and silences inside a frame (frame-smuggling construction) from a raw peer; byte-exact oracle on delivery and on the wire",
 "C10": "seeded search over message sizes (12 B..3 MiB), batching, concurrent senders, slow handlers and fragmentation through two real protocol engines; byte-exact oracle at the receiving handler and on the wire",
 "C11": "seeded search over adversarial message sequences and schedules against a real engine for every repository state map and role; oracle is the declared state-map data replayed as a deterministic merge",
 "C12": "seeded search over conforming (pipelined) conversations for every state map, checked against the plan (executable model): wire order, exactly-once, per-endpoint state sequence, no error; plus forbidden first messages",
 "C13": "seeded search over fast senders / slow consumers / bounded socket buffers with a probe on pending bytes and an independent byte count, oversize and endless-incomplete arms",
 "C14": "seeded search over (state map, role, state, dwell) with exact simulated time: a timeout error must appear iff the dwell exceeded the declared timeout; never in the initial placement or timeout-free states",
 "C15": "seeded search over (API call, adversarial responder behaviour incl. a peer that stops reading under large outbound payloads, connection kind incl. a node-to-client server, end mode, schedule) with liveness stated as 'returned within 2 simulated hours after the connection ended', task-leak and timer-leak detection",
 "C16": "seeded walks of independent specification automata through the real engine with the repository's state maps and codecs: accept/reject language equality on everything explored; triple coverage reported",
 "C17": "seeded search over connection configurations (NtN, NtC, DMQ), negotiated versions and diffusion flags with a raw peer sending request/response segments of eleven mini-protocols; model of negotiated roles and of version-enabled protocols",
 "C18": "seeded search over pairs of version tables, magics, query flags, option combinations and schedules; independent negotiation function as oracle on both sides' conclusions",
 "C19": "seeded search over AcceptVersion messages (version x data shape x magic) from a raw responder against every client configuration",
 "C21": "seeded search over server histories, pipeline limits, callback speeds, stop points (clean, and while a callback is in flight) and schedules between a real chain-sync client and server, without and with a real BlockPipeline; callback/apply sequence, outstanding-request bound and clean stop",
 "C22": "same runs as C21 (scenario chainsync): per roll-forward identity of block type/bytes (NtC) and header era/hash (NtN) for real blocks of eight eras, and for the same blocks with the header's protocol major version patched to 1..12, over the simulated wire",
 "C23": "seeded search over batch shapes (matching, other block, other block of the same slot, right slot with another hash, none, empty, several) and served ranges with real blocks; GetBlock must return the requested block or fail, never hang",
 "C24": "seeded search over request rounds and reply counts; the acknowledgement window is recomputed from the wire by an independent model; out-of-range counts from API and from a raw peer",
 "C25": "seeded search over concurrent callers of one shared client against tagging servers, including acquisitions and re-acquisitions the server refuses; every return value must carry its own request's tag (uniqueness and real-time order) and conforming use must not fail",
 "C42": "seeded search over worker counts, buffer sizes, submitter interleavings, slow apply, decode failures and Stop at arbitrary instants; apply-once/in-order, results exactly once, clean stop",
 "C43": "same runs: a WaitForDrain that returned nil is compared with the apply log: every block submitted before the wait must have finished, none applied afterwards; plus the chain-sync client's drain before a roll-backward callback (scenario chainsync-pipeline)",
 "C44": "same runs with Submit contexts that expire under backpressure: later successful submissions must still be applied",
 "C46": "seeded search over interleavings at every lock/atomic of the shared authenticator; recorded invoke/return history checked for linearizability against a sequential authentication model (porcupine)",
}
design = {"C09": "8/C09", "C10": "8/C10", "C11": "8/C11", "C12": "8/C12", "C13": "8/C13", "C14": "8/C14", "C15": "8/C15", "C16": "8/C16", "C17": "8/C17", "C18": "8/C18", "C19": "8/C19", "C21": "8/C21", "C22": "8/C22", "C23": "8/C23", "C24": "8/C24", "C25": "8/C25", "C42": "8/C42", "C43": "8/C43", "C44": "8/C44", "C46": "8/C46"}
checks = []
for pid in sorted(PROPS):
    sp = PROPS[pid]
    tech = "deterministic simulation with fault injection: seeded schedule + fault search over an instrumented copy, replayable choice tape, shrinking"
    if pid == "C46":
        tech += "; linearizability of the recorded history (porcupine)"
    checks.append({
        "property_id": pid,
        "quick_cmd": "./check %s --tier quick" % pid,
        "thorough_cmd": "./check %s --tier thorough" % pid,
        "evidence_file": "/verif/evidence/%s.json" % pid,
        "replay_cmd_template": "./check %s --replay {path}" % pid,
        "engine": "dst",
        "level_claimed": {"category": "exploration", "text": level_text[pid], "design_ref": design[pid]},
        "level_note": "sampling of schedules and faults, not enumeration; interleavings at synchronisation-operation granularity on an instrumented copy of the current tree; scenarios: " + ", ".join(n for n, _ in sp["scenarios"]) + ". Trusted base: the instrumenter (validated by running the repository's own tests against the instrumented copy), verifsimrt, testing/synctest, the harness oracles.",
        "technique": tech,
    })
m["checks"] = checks
m["engines"][0]["serves_properties"] = sorted(PROPS)
m["hooks"]["baseline_off_cmd"] = "cd /verif && . ./env.sh && cd /repo && \"$VERIF_GO\" test -vet=off -count=1 -timeout 25m ./..."
m["notes"] = "20 properties claimed (C09-C19, C21-C25, C42-C44, C46), 26 not applicable (pure functions). No hooks in /repo: checks instrument a scratch copy at check time. 31 fix: commits in /repo repair the genuine defects the checks found (DESIGN.md 16); known_findings.json holds only fixed: entries, so no check prints KNOWN-FINDING on the current tree."
json.dump(m, open('/verif/MANIFEST.json', 'w'), indent=1)
print(len(checks), "checks")
