package sim

import (
	"errors"
	"fmt"
	"sort"
	"time"

	ouroboros "github.com/blinklabs-io/gouroboros"
	"github.com/blinklabs-io/gouroboros/connection"
	"github.com/blinklabs-io/gouroboros/muxer"
	"github.com/blinklabs-io/gouroboros/protocol"
	"github.com/blinklabs-io/gouroboros/protocol/handshake"
	rt "github.com/blinklabs-io/gouroboros/verifsimrt"
)

// Scenario HANDSHAKE-PAIR (C18): real handshake client and server, and real
// Connection pairs, over simnet; an independent negotiation function decides
// what both sides must conclude.

func init() {
	register(&Scenario{Name: "hs-pair", Setup: hsPairSetup})
	register(&Scenario{Name: "hs-conn", Setup: hsConnSetup})
}

type hsTable struct {
	kind  int // 0 NtN, 1 NtC, 2 DMQ NtC
	magic uint32
	query bool
	m     protocol.ProtocolVersionMap
}

func drawTable(kind int, magic uint32, query bool, full bool) hsTable {
	var m protocol.ProtocolVersionMap
	switch kind {
	case 0:
		m = protocol.GetProtocolVersionMap(protocol.ProtocolModeNodeToNode, magic, chance("cfg", 1, 2), chance("cfg", 1, 2), query)
	case 1:
		m = protocol.GetProtocolVersionMap(protocol.ProtocolModeNodeToClient, magic, false, false, query)
	default:
		m = protocol.GetProtocolVersionMapDMQNtC(magic, query)
	}
	if !full {
		keys := versionKeys(m)
		sub := protocol.ProtocolVersionMap{}
		// random non-empty subset
		first := keys[pick("cfg", len(keys))]
		sub[first] = m[first]
		density := 1 + pick("cfg", 4)
		for _, k := range keys {
			if pick("cfg", 5) < density {
				sub[k] = m[k]
			}
		}
		m = sub
	}
	return hsTable{kind: kind, magic: magic, query: query, m: m}
}

func versionKeys(m protocol.ProtocolVersionMap) []uint16 {
	var ks []uint16
	for k := range m {
		ks = append(ks, k)
	}
	sort.Slice(ks, func(i, j int) bool { return ks[i] < ks[j] })
	return ks
}

// negotiate is the independent model of version negotiation.
// outcome: "accept" (version), "mismatch" (responder's versions ascending),
// "refused" (magic), "query".
func negotiate(a, b hsTable) (outcome string, version uint16) {
	// query mode: decided by the proposed version data. Versions whose data
	// cannot carry the flag (NtN 7-10, NtC 9-14) never signal it.
	if a.query {
		for _, k := range versionKeys(a.m) {
			if a.m[k].Query() {
				return "query", 0
			}
		}
	}
	var common []uint16
	for _, k := range versionKeys(a.m) {
		if _, ok := b.m[k]; ok {
			common = append(common, k)
		}
	}
	if len(common) == 0 {
		return "mismatch", 0
	}
	v := common[len(common)-1]
	if a.m[v].NetworkMagic() != b.m[v].NetworkMagic() {
		return "refused", v
	}
	return "accept", v
}

func sameVersions(a, b []uint16) bool {
	if len(a) != len(b) {
		return false
	}
	for i := range a {
		if a[i] != b[i] {
			return false
		}
	}
	return true
}

func hsPairSetup(s *rt.Sim, tier string) func() {
	schedCfg(s, true)
	s.Cfg.MaxSteps = 20000
	s.Cfg.MaxStall = 100 * time.Millisecond
	s.Cfg.Horizon = 2 * time.Hour
	return func() {
		ncfg := drawNetCfg(true)
		if ncfg.Latency > 100*time.Millisecond {
			ncfg.Latency = 100 * time.Millisecond
		}
		ncfg.Jitter = 0
		kindA := pick("cfg", 3)
		kindB := kindA
		if chance("cfg", 1, 6) {
			kindB = pick("cfg", 3)
		}
		magicA := oneOf[uint32]("cfg", 764824073, 2, 42)
		magicB := magicA
		if chance("cfg", 1, 4) {
			magicB = oneOf[uint32]("cfg", 1, 764824073, 3141592)
		}
		a := drawTable(kindA, magicA, chance("cfg", 1, 6), chance("cfg", 1, 3))
		b := drawTable(kindB, magicB, false, chance("cfg", 1, 3))
		want, wantV := negotiate(a, b)
		ep := newEnginePair(ncfg)
		mode := func(k int) protocol.ProtocolMode {
			if k == 0 {
				return protocol.ProtocolModeNodeToNode
			}
			return protocol.ProtocolModeNodeToClient
		}
		var cFin, sFin []uint16
		var cData, sData []protocol.VersionData
		var qReply protocol.ProtocolVersionMap
		var cErrs, sErrs []error
		cErrCh := make(chan error, 10)
		sErrCh := make(chan error, 10)
		go func() {
			for e := range cErrCh {
				cErrs = append(cErrs, e)
				rt.Log("client error: %v", e)
			}
		}()
		go func() {
			for e := range sErrCh {
				sErrs = append(sErrs, e)
				rt.Log("server error: %v", e)
			}
		}()
		cCfg := handshake.NewConfig(handshake.WithProtocolVersionMap(a.m),
			handshake.WithFinishedFunc(func(ctx handshake.CallbackContext, v uint16, d protocol.VersionData) error {
				cFin, cData = append(cFin, v), append(cData, d)
				return nil
			}),
			handshake.WithQueryReplyFunc(func(ctx handshake.CallbackContext, m protocol.ProtocolVersionMap) error {
				qReply = m
				return nil
			}))
		sCfg := handshake.NewConfig(handshake.WithProtocolVersionMap(b.m),
			handshake.WithFinishedFunc(func(ctx handshake.CallbackContext, v uint16, d protocol.VersionData) error {
				sFin, sData = append(sFin, v), append(sData, d)
				return nil
			}))
		connId := connection.ConnectionId{LocalAddr: simAddr("sim-a"), RemoteAddr: simAddr("sim-b")}
		client := handshake.NewClient(protocol.ProtocolOptions{ConnectionId: connId, Muxer: ep.mA, ErrorChan: cErrCh, Mode: mode(kindA), Role: protocol.ProtocolRoleClient}, &cCfg)
		server := handshake.NewServer(protocol.ProtocolOptions{ConnectionId: connId, Muxer: ep.mB, ErrorChan: sErrCh, Mode: mode(kindB), Role: protocol.ProtocolRoleServer}, &sCfg)
		server.Start()
		client.Start()
		ep.mA.Start()
		ep.mB.Start()
		// wait until both sides concluded, or 20 simulated minutes
		for i := 0; i < 1200; i++ {
			sleep(time.Second)
			cDone := len(cFin) > 0 || len(cErrs) > 0 || qReply != nil
			sDone := len(sFin) > 0 || len(sErrs) > 0
			if cDone && sDone {
				sleep(5 * time.Second)
				break
			}
		}
		desc := fmt.Sprintf("initiator offers %v (magic %d, query %v), responder has %v (magic %d): model says %s %d", versionKeys(a.m), magicA, a.query, versionKeys(b.m), magicB, want, wantV)
		rt.Hit("hs." + want)
		if ep.deadlineFired() {
			return
		}
		switch want {
		case "accept":
			if len(cFin) != 1 || len(sFin) != 1 || cFin[0] != wantV || sFin[0] != wantV {
				rt.Violate("C18/versions-disagree", "%s; initiator finished with %v (errs %v), responder with %v (errs %v)", desc, cFin, cErrs, sFin, sErrs)
				return
			}
			if cData[0] == nil || sData[0] == nil || cData[0].NetworkMagic() != magicB || sData[0].NetworkMagic() != magicA {
				rt.Violate("C18/version-data-wrong", "%s; version data handed to the callbacks is not the peer's", desc)
			}
		case "mismatch":
			if len(cFin) > 0 || len(sFin) > 0 {
				rt.Violate("C18/finished-without-common-version", "%s; initiator %v responder %v", desc, cFin, sFin)
				return
			}
			var vm *handshake.VersionMismatchError
			ok := false
			for _, e := range cErrs {
				if errors.As(e, &vm) {
					ok = true
				}
			}
			if !ok {
				rt.Violate("C18/refusal-not-reported", "%s; the initiator did not report the refusal (initiator errors: %v; responder errors: %v)", desc, cErrs, sErrs)
				return
			}
			if !sameVersions(vm.SupportedVersions, versionKeys(b.m)) {
				rt.Violate("C18/mismatch-list-wrong", "%s; refusal lists %v", desc, vm.SupportedVersions)
			}
		case "refused":
			if len(cFin) > 0 || len(sFin) > 0 {
				rt.Violate("C18/finished-despite-magic-mismatch", "%s; initiator %v responder %v", desc, cFin, sFin)
				return
			}
			var re handshake.RefusalError
			ok := false
			for _, e := range cErrs {
				if errors.As(e, &re) {
					ok = true
				}
			}
			if !ok {
				rt.Violate("C18/refusal-not-reported", "%s; the initiator did not report the refusal (initiator errors: %v; responder errors: %v)", desc, cErrs, sErrs)
				return
			}
		case "query":
			selected := len(sFin) > 0
			for _, v := range cFin {
				if v != 0 {
					selected = true
				}
			}
			if selected {
				rt.Violate("C18/query-selected-a-version", "%s; initiator %v responder %v", desc, cFin, sFin)
				return
			}
			if qReply == nil {
				rt.Violate("C18/query-reply-not-delivered", "%s; the initiator never obtained the responder's version table (initiator errors: %v)", desc, cErrs)
				return
			}
			if !sameVersions(versionKeys(qReply), versionKeys(b.m)) {
				rt.Violate("C18/query-reply-wrong", "%s; query reply lists %v", desc, versionKeys(qReply))
			}
		}
		client.Stop()
		server.Stop()
		ep.stop()
	}
}

// connOpts describes one side of a Connection pair.
type connOpts struct {
	ntn, dmq, server, duplex, peerSharing, query, keepAlive bool
	magic                                                   uint32
}

func (o connOpts) options(c *Conn) []ouroboros.ConnectionOptionFunc {
	opts := []ouroboros.ConnectionOptionFunc{ouroboros.WithConnection(c), ouroboros.WithNetworkMagic(o.magic), ouroboros.WithServer(o.server)}
	if o.ntn {
		opts = append(opts, ouroboros.WithNodeToNode(true))
	}
	if o.dmq {
		opts = append(opts, ouroboros.WithDMQ(true))
	}
	if o.duplex {
		opts = append(opts, ouroboros.WithFullDuplex(true))
	}
	if o.peerSharing {
		opts = append(opts, ouroboros.WithPeerSharing(true))
	}
	if o.query {
		opts = append(opts, ouroboros.WithQueryMode(true))
	}
	if o.keepAlive {
		opts = append(opts, ouroboros.WithKeepAlive(true))
	}
	return opts
}

func (o connOpts) table() hsTable {
	switch {
	case o.dmq:
		return hsTable{kind: 2, magic: o.magic, query: o.query, m: protocol.GetProtocolVersionMapDMQNtC(o.magic, o.query)}
	case o.ntn:
		return hsTable{kind: 0, magic: o.magic, query: o.query, m: protocol.GetProtocolVersionMap(protocol.ProtocolModeNodeToNode, o.magic, !o.duplex, o.peerSharing, o.query)}
	}
	return hsTable{kind: 1, magic: o.magic, query: o.query, m: protocol.GetProtocolVersionMap(protocol.ProtocolModeNodeToClient, o.magic, false, false, o.query)}
}

func drawConnOpts(server bool) connOpts {
	o := connOpts{server: server, magic: oneOf[uint32]("cfg", 764824073, 2, 42)}
	switch pick("cfg", 5) {
	case 0, 1:
		o.ntn = true
	case 2, 3:
	default:
		o.dmq = true
	}
	o.duplex = chance("cfg", 1, 2)
	o.peerSharing = chance("cfg", 1, 2)
	return o
}

func hsConnSetup(s *rt.Sim, tier string) func() {
	schedCfg(s, true)
	s.Cfg.MaxSteps = 40000
	s.Cfg.MaxStall = 100 * time.Millisecond
	s.Cfg.Horizon = 2 * time.Hour
	return func() {
		ncfg := drawNetCfg(true)
		if ncfg.Latency > 100*time.Millisecond {
			ncfg.Latency = 100 * time.Millisecond
		}
		ncfg.Jitter = 0
		pair := NewPair(ncfg)
		co := drawConnOpts(false)
		so := drawConnOpts(true)
		if !chance("cfg", 1, 5) {
			so.ntn, so.dmq = co.ntn, co.dmq
		}
		if !chance("cfg", 1, 4) {
			so.magic = co.magic
		}
		co.query = chance("cfg", 1, 6)
		want, wantV := negotiate(co.table(), so.table())
		var cConn, sConn *ouroboros.Connection
		var cErr, sErr error
		cRet, sRet := false, false
		go func() {
			sConn, sErr = ouroboros.NewConnection(so.options(pair.B)...)
			sRet = true
		}()
		go func() {
			cConn, cErr = ouroboros.NewConnection(co.options(pair.A)...)
			cRet = true
		}()
		for i := 0; i < 1200 && !(cRet && sRet); i++ {
			sleep(time.Second)
		}
		desc := fmt.Sprintf("initiator %+v, responder %+v: model says %s %d", co, so, want, wantV)
		rt.Hit("hsconn." + want)
		if pair.A.Deadline+pair.B.Deadline > 0 {
			return
		}
		if !cRet || !sRet {
			rt.Violate("C18/handshake-hangs", "%s; NewConnection returned: initiator %v responder %v after 20 simulated minutes", desc, cRet, sRet)
			return
		}
		switch want {
		case "accept":
			if cErr != nil || sErr != nil {
				rt.Violate("C18/versions-disagree", "%s; initiator error %v, responder error %v", desc, cErr, sErr)
				return
			}
			cv, _ := cConn.ProtocolVersion()
			sv, _ := sConn.ProtocolVersion()
			if cv != wantV || sv != wantV {
				rt.Violate("C18/versions-disagree", "%s; initiator settled on %d, responder on %d", desc, cv, sv)
			}
		case "mismatch", "refused":
			if cErr == nil {
				rt.Violate("C18/finished-despite-refusal", "%s; initiator's NewConnection succeeded", desc)
				return
			}
			var re handshake.RefusalError
			if !errors.As(cErr, &re) {
				rt.Violate("C18/refusal-not-reported", "%s; the initiator's NewConnection failed with %q instead of the responder's refusal (responder: %v)", desc, cErr, sErr)
				return
			}
			var vm *handshake.VersionMismatchError
			if want == "mismatch" && (!errors.As(cErr, &vm) || !sameVersions(vm.SupportedVersions, versionKeys(so.table().m))) {
				rt.Violate("C18/mismatch-list-wrong", "%s; initiator error %v", desc, cErr)
			}
		case "query":
			if cErr != nil {
				rt.Violate("C18/query-reply-not-delivered", "%s; initiator's NewConnection failed: %v", desc, cErr)
				return
			}
			if v, _ := cConn.ProtocolVersion(); v != 0 {
				rt.Violate("C18/query-selected-a-version", "%s; initiator version %d", desc, v)
				return
			}
			got := cConn.QueryReplyVersionMap()
			if got == nil || !sameVersions(versionKeys(got), versionKeys(so.table().m)) {
				rt.Violate("C18/query-reply-not-delivered", "%s; QueryReplyVersionMap = %v", desc, versionKeys(got))
			}
		}
		if cConn != nil {
			cConn.Close()
		}
		if sConn != nil {
			sConn.Close()
		}
	}
}

var _ = muxer.DiffusionModeNone
