package sim

import (
	"encoding/binary"
	"errors"
	"fmt"
)

// Independent observers of the wire: a frame parser for the multiplexer
// framing (8-byte header: 4 bytes timestamp, 1 bit direction + 15 bits protocol
// id, 2 bytes payload length) and a CBOR item-length scanner. Neither uses
// library code, so a broken muxer or codec cannot hide itself.

type Frame struct {
	Off      int // offset of the header in the stream
	Proto    uint16
	Response bool
	Payload  []byte
}

// parseFrames splits a complete byte stream into frames. rest is the number of
// trailing bytes that do not form a complete frame.
func parseFrames(stream []byte) (frames []Frame, rest int) {
	off := 0
	for len(stream)-off >= 8 {
		id := binary.BigEndian.Uint16(stream[off+4:])
		ln := int(binary.BigEndian.Uint16(stream[off+6:]))
		if len(stream)-off-8 < ln {
			break
		}
		frames = append(frames, Frame{Off: off, Proto: id & 0x7fff, Response: id&0x8000 != 0, Payload: stream[off+8 : off+8+ln]})
		off += 8 + ln
	}
	return frames, len(stream) - off
}

func encodeFrame(proto uint16, response bool, payload []byte) []byte {
	b := make([]byte, 8+len(payload))
	binary.BigEndian.PutUint32(b, 0x01020304)
	id := proto
	if response {
		id |= 0x8000
	}
	binary.BigEndian.PutUint16(b[4:], id)
	binary.BigEndian.PutUint16(b[6:], uint16(len(payload)))
	copy(b[8:], payload)
	return b
}

var errCborShort = errors.New("cbor: need more bytes")
var errCborBad = errors.New("cbor: malformed")

// cborItemLen returns the encoded length of the first CBOR data item in b.
func cborItemLen(b []byte) (int, error) {
	return cborItem(b, 0)
}

func cborItem(b []byte, depth int) (int, error) {
	if depth > 512 {
		return 0, errCborBad
	}
	if len(b) == 0 {
		return 0, errCborShort
	}
	ib := b[0]
	major := ib >> 5
	ai := ib & 0x1f
	var val uint64
	hl := 1
	indef := false
	switch {
	case ai < 24:
		val = uint64(ai)
	case ai == 24:
		hl = 2
	case ai == 25:
		hl = 3
	case ai == 26:
		hl = 5
	case ai == 27:
		hl = 9
	case ai == 31:
		indef = true
	default:
		return 0, errCborBad
	}
	if len(b) < hl {
		return 0, errCborShort
	}
	switch hl {
	case 2:
		val = uint64(b[1])
	case 3:
		val = uint64(binary.BigEndian.Uint16(b[1:]))
	case 5:
		val = uint64(binary.BigEndian.Uint32(b[1:]))
	case 9:
		val = binary.BigEndian.Uint64(b[1:])
	}
	switch major {
	case 0, 1:
		if indef {
			return 0, errCborBad
		}
		return hl, nil
	case 2, 3:
		if indef {
			off := 1
			for {
				if len(b) <= off {
					return 0, errCborShort
				}
				if b[off] == 0xff {
					return off + 1, nil
				}
				if b[off]>>5 != major {
					return 0, errCborBad
				}
				n, err := cborItem(b[off:], depth+1)
				if err != nil {
					return 0, err
				}
				off += n
			}
		}
		if val > uint64(1<<40) {
			return 0, errCborBad
		}
		if uint64(len(b)-hl) < val {
			return 0, errCborShort
		}
		return hl + int(val), nil
	case 4, 5:
		off := hl
		mult := uint64(1)
		if major == 5 {
			mult = 2
		}
		if indef {
			for {
				if len(b) <= off {
					return 0, errCborShort
				}
				if b[off] == 0xff {
					return off + 1, nil
				}
				n, err := cborItem(b[off:], depth+1)
				if err != nil {
					return 0, err
				}
				off += n
			}
		}
		if val > uint64(1<<32) {
			return 0, errCborBad
		}
		for i := uint64(0); i < val*mult; i++ {
			n, err := cborItem(b[off:], depth+1)
			if err != nil {
				return 0, err
			}
			off += n
		}
		return off, nil
	case 6:
		if indef {
			return 0, errCborBad
		}
		n, err := cborItem(b[hl:], depth+1)
		if err != nil {
			return 0, err
		}
		return hl + n, nil
	default: // 7
		if indef {
			return 0, errCborBad // stray break
		}
		return hl, nil
	}
}

// splitMessages splits a mini-protocol byte stream (concatenated segment
// payloads of one protocol and direction) into CBOR messages.
func splitMessages(stream []byte) (msgs [][]byte, rest []byte, err error) {
	for len(stream) > 0 {
		n, e := cborItemLen(stream)
		if e == errCborShort {
			return msgs, stream, nil
		}
		if e != nil {
			return msgs, stream, e
		}
		msgs = append(msgs, stream[:n])
		stream = stream[n:]
	}
	return msgs, nil, nil
}

// msgType returns the first array element of a mini-protocol message, if it is
// a small unsigned integer.
func msgType(msg []byte) (int, error) {
	if len(msg) < 2 || (msg[0]>>5 != 4) {
		return 0, fmt.Errorf("not an array")
	}
	hl := 1
	switch msg[0] & 0x1f {
	case 24:
		hl = 2
	case 25:
		hl = 3
	case 26:
		hl = 5
	case 27:
		hl = 9
	}
	if len(msg) <= hl {
		return 0, fmt.Errorf("short")
	}
	b := msg[hl]
	if b>>5 != 0 {
		return 0, fmt.Errorf("type not uint")
	}
	if b&0x1f < 24 {
		return int(b & 0x1f), nil
	}
	if b&0x1f == 24 && len(msg) > hl+1 {
		return int(msg[hl+1]), nil
	}
	return 0, fmt.Errorf("type too large")
}

// protoStream concatenates the payloads of all frames of one protocol/direction.
func protoStream(frames []Frame, proto uint16, response bool) []byte {
	var out []byte
	for _, f := range frames {
		if f.Proto == proto && f.Response == response {
			out = append(out, f.Payload...)
		}
	}
	return out
}
