package sim

import (
	"fmt"
	"time"

	ouroboros "github.com/blinklabs-io/gouroboros"
	"github.com/blinklabs-io/gouroboros/protocol/txsubmission"
	rt "github.com/blinklabs-io/gouroboros/verifsimrt"
)

// Scenario TXSUB-SESSIONS (C24): the inbound side (Server API of a real NtN
// server Connection) against a raw outbound peer that runs several sessions on
// one connection: Init, replies with any number of ids, Done in answer to a
// blocking request, Init again. The acknowledgement window starts empty in
// every session.

func init() {
	register(&Scenario{Name: "txsub-sessions", Setup: txSubSessionsSetup})
}

func txSubSessionsSetup(s *rt.Sim, tier string) func() {
	schedCfg(s, true)
	s.Cfg.MaxSteps = 80000
	s.Cfg.MaxStall = 200 * time.Millisecond
	s.Cfg.Horizon = 6 * time.Hour
	return func() {
		pair := NewPair(drawNetCfg(false))
		inits := 0
		sCfg := txsubmission.NewConfig(txsubmission.WithInitFunc(func(txsubmission.CallbackContext) error { inits++; return nil }))
		so := connOpts{ntn: true, magic: 42, server: true}
		peer := newRawPeer(pair.B)
		var conn *ouroboros.Connection
		var cErr error
		connRet := false
		go func() {
			conn, cErr = ouroboros.NewConnection(append(so.options(pair.A), ouroboros.WithTxSubmissionConfig(sCfg))...)
			connRet = true
		}()
		if rawProposeAndAwait(peer, (connOpts{ntn: true, magic: 42}).table().m) == 0 {
			return
		}
		for i := 0; i < 600 && !connRet; i++ {
			sleep(100 * time.Millisecond)
		}
		if !connRet || cErr != nil {
			rt.Hit("txsubsess.setup-failed")
			return
		}
		peer.keepAlive(conn.Muxer(), false)
		watch := watchConn(conn)
		// the raw outbound side
		type wireReq struct {
			reqTxIdsWire
			session int
			replied int // ids sent in answer (-1: Done)
		}
		var reqs []*wireReq
		session := 0
		doneNext := false // answer the next blocking request with Done
		consumed := 0
		nextId := byte(0)
		stopResp := false
		sendInit := func() { _ = peer.sendMsg(txsubmission.ProtocolId, false, msgBytes(txsubmission.NewMsgInit())) }
		go func() {
			for !stopResp && !peer.eof {
				ms, _, _ := splitMessages(peer.stream(txsubmission.ProtocolId, true))
				for consumed < len(ms) {
					m := ms[consumed]
					consumed++
					ty, err := msgType(m)
					if err != nil {
						continue
					}
					switch ty {
					case 0:
						w, ok := parseRequestTxIds(m)
						if !ok {
							rt.Violate("C24/request-undecodable", "RequestTxIds on the wire does not decode as [0, bool, uint, uint]: % x", m)
							return
						}
						r := &wireReq{reqTxIdsWire: w, session: session}
						reqs = append(reqs, r)
						if w.blocking && doneNext {
							doneNext = false
							r.replied = -1
							_ = peer.sendMsg(txsubmission.ProtocolId, false, msgBytes(txsubmission.NewMsgDone()))
							session++
							continue
						}
						cnt := pick("op", int(min(w.req, 6))+1)
						if w.blocking && cnt == 0 {
							cnt = 1
						}
						var ids []txsubmission.TxIdAndSize
						for i := 0; i < cnt; i++ {
							nextId++
							ids = append(ids, txsubmission.TxIdAndSize{TxId: txsubmission.TxId{EraId: 5, TxId: [32]byte{nextId, byte(session)}}, Size: 100})
						}
						r.replied = cnt
						if chance("op", 1, 4) {
							sleep(oneOf("op", time.Millisecond, 50*time.Millisecond, time.Second))
						}
						_ = peer.sendMsg(txsubmission.ProtocolId, false, msgBytes(txsubmission.NewMsgReplyTxIds(ids)))
					case 2:
						_ = peer.sendMsg(txsubmission.ProtocolId, false, msgBytes(txsubmission.NewMsgReplyTxs([]txsubmission.TxBody{{EraId: 5, TxBody: []byte{0x84, 0xa0, 0xa0, 0xf5, 0xf6}}})))
					}
				}
				sleep(20 * time.Millisecond)
			}
		}()
		srv := conn.TxSubmission().Server
		nsessions := 2 + pick("cfg", 2)
		completed := 0
		prevProto := srv.ProtocolInstance()
		for sess := 0; sess < nsessions; sess++ {
			if sess > 0 {
				// The library restarts the protocol from inside its Done handler (stop,
				// unregister, new instance, register again); RequestTxIds returns before that
				// is over. An Init that arrives in between is lost or breaks the connection.
				// Restarting after Done is the library's own extension and nothing in C24
				// speaks about it, so the outbound peer is patient: it waits until the new
				// instance exists and then longer than any chain of injected stalls.
				for i := 0; i < 600 && srv.ProtocolInstance() == prevProto; i++ {
					sleep(100 * time.Millisecond)
				}
				prevProto = srv.ProtocolInstance()
				sleep(5 * time.Second)
			}
			if chance("op", 1, 3) {
				sleep(oneOf("op", time.Millisecond, 100*time.Millisecond, 3*time.Second))
			}
			sendInit()
			for i := 0; i < 600 && inits <= sess; i++ {
				sleep(100 * time.Millisecond)
			}
			if inits <= sess {
				// not a statement of C24 (see above): counted, the run still checks what was on the wire
				rt.Hit("txsubsess.session-not-started")
				break
			}
			rounds := 1 + pick("op", 5)
			failed := false
			for r := 0; r <= rounds; r++ {
				last := r == rounds
				blocking := last || chance("op", 1, 3)
				req := oneOf("op", 1, 2, 3, 6)
				if last {
					doneNext = true
				}
				ids, err := srv.RequestTxIds(blocking, req)
				if last {
					if err == nil {
						rt.Violate("C24/done-not-reported", "session %d: the outbound side answered the blocking request with Done, RequestTxIds returned %d ids and no error", sess, len(ids))
						return
					}
					break
				}
				if err != nil {
					failed = true
					break
				}
				if len(ids) > 0 && chance("op", 1, 3) {
					if _, err := srv.RequestTxs([]txsubmission.TxId{ids[0].TxId}); err != nil {
						failed = true
						break
					}
				}
			}
			if failed {
				break
			}
			completed++
		}
		stopResp = true
		sleep(2 * time.Second)
		if pair.A.Deadline+pair.B.Deadline > 0 {
			return
		}
		if completed >= 2 {
			rt.Hit("txsubsess.second-session")
		}
		if len(watch.errs) > 0 {
			// C24 says nothing about connection errors; the requests that reached the wire are
			// judged all the same (a request can only follow a reply that was received)
			rt.Hit("txsubsess.connection-error")
		}
		// per session: a request never acknowledges more than was received and is still unacknowledged
		unacked, cur := 0, 0
		var trail []string
		for i, r := range reqs {
			if r.session != cur {
				cur, unacked = r.session, 0
			}
			trail = append(trail, fmt.Sprintf("s%d:ack=%d,req=%d,blocking=%v->%d", r.session, r.ack, r.req, r.blocking, r.replied))
			if r.ack > 65535 || r.req > 65535 {
				rt.Violate("C24/count-out-of-range-on-wire", "RequestTxIds #%d carries ack=%d req=%d", i, r.ack, r.req)
				return
			}
			if int(r.ack) > unacked {
				rt.Violate("C24/acknowledges-more-than-received", "RequestTxIds #%d (session %d) acknowledges %d ids, only %d were received in this session and not yet acknowledged (requests so far: %v)", i, r.session, r.ack, unacked, trail)
				return
			}
			if r.blocking && unacked-int(r.ack) != 0 {
				rt.Hit("txsubsess.blocking-with-outstanding-ids")
			}
			unacked -= int(r.ack)
			if r.replied > 0 {
				unacked += r.replied
			}
		}
		conn.Close()
		peer.close()
	}
}
