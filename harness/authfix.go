//verif:noinstr

package sim

import (
	"crypto/ed25519"
	"fmt"
	"sync"

	"github.com/blinklabs-io/gouroboros/cbor"
	"github.com/blinklabs-io/gouroboros/kes"
	pcommon "github.com/blinklabs-io/gouroboros/protocol/common"
)

// Genuinely signed DMQ messages (Ed25519 cold keys, KES keys from the
// repository's kes package), cached across runs.

type authPool struct {
	cold   ed25519.PrivateKey
	coldPk ed25519.PublicKey
	kesSk  *kes.SecretKey
	kesPk  []byte
}

var authPoolsOnce sync.Once
var authPools []*authPool
var authMsgCache sync.Map

func getAuthPools() []*authPool {
	authPoolsOnce.Do(func() {
		for i := 0; i < 3; i++ {
			seed := make([]byte, 32)
			for j := range seed {
				seed[j] = byte(i*37 + j)
			}
			cold := ed25519.NewKeyFromSeed(seed)
			kseed := make([]byte, 32)
			for j := range kseed {
				kseed[j] = byte(i*91 + j + 5)
			}
			sk, pk, err := kes.KeyGen(kes.CardanoKesDepth, kseed)
			if err != nil {
				panic(err)
			}
			authPools = append(authPools, &authPool{cold: cold, coldPk: cold.Public().(ed25519.PublicKey), kesSk: sk, kesPk: pk})
		}
	})
	return authPools
}

// authMessage returns a correctly signed message of pool p with the given
// certificate issue number and body variant.
func authMessage(p int, issue uint64, body int) pcommon.DmqMessage {
	key := fmt.Sprintf("%d/%d/%d", p, issue, body)
	if v, ok := authMsgCache.Load(key); ok {
		return cloneDmq(v.(pcommon.DmqMessage))
	}
	pool := getAuthPools()[p]
	payload := pcommon.DmqMessagePayload{MessageBody: []byte(fmt.Sprintf("body-%d-%d-%d", p, issue, body)), KESPeriod: 0, ExpiresAt: 4000000000}
	payloadCbor, err := cbor.Encode(payload)
	if err != nil {
		panic(err)
	}
	wrapped, err := cbor.Encode(payloadCbor)
	if err != nil {
		panic(err)
	}
	sig, err := kes.Sign(pool.kesSk, 0, wrapped)
	if err != nil {
		panic(err)
	}
	certCbor, err := cbor.Encode([]any{pool.kesPk, issue, uint64(0)})
	if err != nil {
		panic(err)
	}
	msg := pcommon.DmqMessage{
		Payload:      payload,
		KESSignature: sig,
		OperationalCertificate: pcommon.OperationalCertificate{
			KESVerificationKey: pool.kesPk, IssueNumber: issue, KESPeriod: 0, ColdSignature: ed25519.Sign(pool.cold, certCbor),
		},
		ColdVerificationKey: []byte(pool.coldPk),
	}
	if err := msg.SetComputedMessageID(); err != nil {
		panic(err)
	}
	authMsgCache.Store(key, msg)
	return cloneDmq(msg)
}

// authMessageForeignKes is pool p's message number (issue, body) whose KES key
// and KES signature are pool q's (valid for the payload), while the cold
// signature is the genuine one over pool p's own KES key.
func authMessageForeignKes(p int, issue uint64, body int, q int) pcommon.DmqMessage {
	m := authMessage(p, issue, body)
	payloadCbor, err := cbor.Encode(m.Payload)
	if err != nil {
		panic(err)
	}
	wrapped, err := cbor.Encode(payloadCbor)
	if err != nil {
		panic(err)
	}
	other := getAuthPools()[q]
	sig, err := kes.Sign(other.kesSk, 0, wrapped)
	if err != nil {
		panic(err)
	}
	m.KESSignature = sig
	m.OperationalCertificate.KESVerificationKey = append([]byte(nil), other.kesPk...)
	return m
}

func cloneDmq(m pcommon.DmqMessage) pcommon.DmqMessage {
	c := m
	c.MessageID = append([]byte(nil), m.MessageID...)
	c.Payload.MessageID = append([]byte(nil), m.Payload.MessageID...)
	c.Payload.MessageBody = append([]byte(nil), m.Payload.MessageBody...)
	c.KESSignature = append([]byte(nil), m.KESSignature...)
	c.OperationalCertificate.KESVerificationKey = append([]byte(nil), m.OperationalCertificate.KESVerificationKey...)
	c.OperationalCertificate.ColdSignature = append([]byte(nil), m.OperationalCertificate.ColdSignature...)
	c.ColdVerificationKey = append([]byte(nil), m.ColdVerificationKey...)
	return c
}

// kesVerifierForTests is the verifier injected through the library's own seam
// (SetKESVerifier): real KES verification at period 0.
func kesVerifierForTests(msg, sig, vkey []byte, kesPeriod, slot, slotsPerKesPeriod uint64) (bool, error) {
	return kes.VerifySignedKES(vkey, 0, msg, sig), nil
}
