# Per-property check specification: scenarios (name, weight), run counts and budgets per tier,
# non-triviality probes, the counting rule reported in evidence.
REAL_NET = ["muxer (instrumented copy of the current tree)"]
STUB_NET = ["TCP connection (simnet.Conn: fragmentation, latency, bounded buffer, abrupt close, errors, deadlines)",
            "clock (testing/synctest fake clock)", "Go scheduler decisions (verifsimrt cooperative scheduler, PRNG tape)"]

def P(scenarios, quick, thorough, rule, nontrivial, expect=None, real=None, stubs=None, assumptions=None, budget=(120, 1500), detcheck=25):
    return dict(scenarios=scenarios, runs=dict(quick=quick, thorough=thorough), budget_s=dict(quick=budget[0], thorough=budget[1]),
                rule=rule, nontrivial=nontrivial, expect_probes=expect or nontrivial, real=real or REAL_NET, stubs=stubs or STUB_NET,
                assumptions=assumptions or [], detcheck=detcheck)

REAL_ENG = ["muxer", "protocol.Protocol engine (stateLoop/readLoop/recvLoop/sendLoop)", "repository state-map data", "CBOR decoding in readLoop"]
STUB_ENG = STUB_NET + ["application (harness handler tasks)", "message contents (opaque tagged CBOR arrays, except tx-submission RequestTxIds)"]

PROPS = {
 "C10": P([("msg", 1)], 1500, 60000,
          "one evaluation = one simulated run of two real protocol engines over real muxers over simnet exchanging 1-3 rounds of up to 30 messages per direction (sizes 12 B .. 3 MiB, 1-3 concurrent sender tasks, slow handlers, fragmentation, bounded socket buffer, stalls); distinct = distinct schedule hash; non-trivial = at least one message spanned several segments or several messages shared one segment",
          ["msg.multi-segment-message", "msg.several-messages-in-one-segment"], real=REAL_ENG, stubs=STUB_ENG),
 "C12": P([("conv", 3), ("conv-neg", 1)], 3000, 150000,
          "one evaluation = one simulated run of a planned conforming conversation (random walk of an independent specification automaton, 2-32 messages, pipelined or lock-step client, replies from the handler or a task) between two real engines using one of 11 repository state maps, or of a forbidden first message; distinct = distinct schedule hash; non-trivial = the client pipelined its requests or a forbidden message was queued",
          ["conv.pipelined", "convneg.chainsync-ntn", "convneg.blockfetch", "convneg.keepalive", "convneg.localstatequery", "convneg.txsubmission"], expect=["conv.pipelined", "conv.chainsync-ntn", "conv.txsubmission", "conv.localtxmonitor"], real=REAL_ENG, stubs=STUB_ENG),
 "C09": P([("mux", 3), ("mux-adv", 1)], 3000, 150000,
          "one evaluation = one simulated run (seeded schedule + fault tape) of two real muxers over simnet with 1-5 registrations, concurrent channel/Send senders and stalling receivers, or of one real muxer fed an offending frame by a raw peer; distinct = distinct schedule hash (sequence of task@site steps and select outcomes); non-trivial = at least one segment was delivered end-to-end or an offending frame was sent",
          ["mux.segment-delivered", "muxadv.zero", "muxadv.segm", "muxadv.wron"], expect=["mux.segment-delivered", "mux.frames-on-wire", "net.writer-blocked", "mux.connection-broken"]),
}
