package sim

import (
	"context"
	"fmt"
	"time"

	lcommon "github.com/blinklabs-io/gouroboros/ledger/common"
	"github.com/blinklabs-io/gouroboros/pipeline"
	pcommon "github.com/blinklabs-io/gouroboros/protocol/common"
	rt "github.com/blinklabs-io/gouroboros/verifsimrt"
)

// Scenario PIPELINE (C42, C43, C44): a real BlockPipeline with 1-16 decode
// workers, several submitter tasks, slow apply, WaitForDrain callers, expiring
// Submit contexts and Stop at an arbitrary instant.

func init() {
	register(&Scenario{Name: "pipeline", Setup: pipelineSetup})
}

type plBlock struct {
	idx        int
	good       bool
	task       int
	inv, ret   uint64 // Submit invoke / return stamps
	err        error
	seq        uint64 // sequence number seen by apply / results
	applyStart []uint64
	applyEnd   []uint64
	results    int
	valFail    bool // the epoch-nonce provider fails for this block: it does not validate
	resValid   bool // the item on Results() said it had validated
	retried    bool // a first Submit failed; the same call was made again later
}

func pipelineSetup(s *rt.Sim, tier string) func() {
	schedCfg(s, true)
	s.Cfg.MaxSteps = 120000
	s.Cfg.MaxStall = 2 * time.Second
	s.Cfg.Horizon = 2 * time.Hour
	return func() {
		blocks := fixBlocks()
		workers := oneOf("cfg", 1, 2, 4, 8, 16, 3)
		buf := 1 + pick("cfg", 8)
		nsub := 1 + pick("cfg", 3)
		perSub := 1 + pick("cfg", 10)
		slowApply := pick("cfg", 3) // 0 fast, 1 sometimes slow, 2 slow
		stopEarly := chance("cfg", 1, 4)
		expiring := chance("cfg", 1, 3) // some submissions use contexts that expire
		ndrain := pick("cfg", 3)
		// tuning knobs: out-of-order buffer limit of the apply stage, validation stage
		maxPending := oneOf("cfg", 0, 1, 2, 4)
		valWorkers := oneOf("cfg", 0, 0, 1, 4, 16)
		slowVal := pick("cfg", 3)
		// focus arm (own stream of draws): back-pressure with several submitters whose contexts
		// expire while they queue behind one another, and drains while blocks dwell in workers --
		// the corner in which admission, cancellation and drain accounting meet
		focus := rt.Choose("cfg.x", 3) == 2
		if focus {
			nsub = 2 + rt.Choose("cfg.x", 2)
			perSub = 3 + rt.Choose("cfg.x", 6)
			buf = 1 + rt.Choose("cfg.x", 2)
			expiring = true
			ndrain = 2
			stopEarly = false
			if rt.Choose("cfg.x", 2) == 1 {
				slowApply = 2
			} else if valWorkers > 0 {
				slowVal = 2
			} else {
				slowApply = 1
			}
			rt.Hit("pl.focus-backpressure-expiry-drain")
		}
		failSlot := map[uint64]bool{} // eras whose epoch nonce cannot be provided
		if valWorkers > 0 {
			for _, fb := range blocks {
				if chance("cfg", 1, 3) {
					failSlot[fb.Slot] = true
				}
			}
		}
		// knobs (own streams): the nonce provider's failure wraps a context error of its own;
		// a submitter repeats a failed Submit (same arguments) after its next submission
		ctxFlavoured := rt.Choose("cfg.r", 2) == 1
		retryFailed := rt.Choose("cfg.r", 2) == 1
		type valCall struct{ start, end uint64 }
		var valCalls []*valCall
		eta0Provider := func(slot uint64) (string, error) {
			// runs inside a validate worker
			vc := &valCall{start: rt.Stamp()}
			valCalls = append(valCalls, vc)
			defer func() { vc.end = rt.Stamp() }()
			if slowVal > 0 && chance("op", slowVal, 3) {
				sleep(oneOf("op", time.Millisecond, 40*time.Millisecond, 700*time.Millisecond))
			}
			if failSlot[slot] {
				if ctxFlavoured {
					// the application's own lookup timed out: an ordinary failure of this block
					return "", fmt.Errorf("harness: epoch nonce lookup for slot %d: %w", slot, context.DeadlineExceeded)
				}
				return "", fmt.Errorf("harness: no epoch nonce for slot %d", slot)
			}
			return validConwayEta0, nil
		}
		var all []*plBlock
		byIdx := map[uint64]*plBlock{}
		applyOrder := []uint64{} // sequence numbers in apply-call order
		stopping := false
		applyFunc := func(item *pipeline.BlockItem) error {
			b := byIdx[item.Tip().BlockNumber]
			st := rt.Stamp()
			if b != nil {
				b.applyStart = append(b.applyStart, st)
				b.seq = item.SequenceNumber()
			}
			applyOrder = append(applyOrder, item.SequenceNumber())
			switch slowApply {
			case 1:
				if chance("op", 1, 3) {
					sleep(oneOf("op", time.Millisecond, 50*time.Millisecond, time.Second))
				}
			case 2:
				sleep(oneOf("op", 20*time.Millisecond, 300*time.Millisecond, 2*time.Second))
			}
			if b != nil {
				b.applyEnd = append(b.applyEnd, rt.Stamp())
			}
			return nil
		}
		plOpts := []pipeline.PipelineOption{
			pipeline.WithDecodeWorkers(workers),
			pipeline.WithValidateWorkers(valWorkers),
			pipeline.WithPrefetchBufferSize(buf),
			pipeline.WithApplyFunc(applyFunc),
			pipeline.WithSkipBodyHashValidation(true),
		}
		if maxPending > 0 {
			plOpts = append(plOpts, pipeline.WithMaxPendingBlocks(maxPending))
			rt.Hit("pl.small-pending-limit")
		}
		if valWorkers > 0 {
			plOpts = append(plOpts, pipeline.WithEta0Provider(eta0Provider), pipeline.WithSlotsPerKesPeriod(129600),
				pipeline.WithVerifyConfig(lcommon.VerifyConfig{SkipBodyHashValidation: true, SkipTransactionValidation: true, SkipStakePoolValidation: true}))
			rt.Hit("pl.validation-on")
		}
		p := pipeline.NewBlockPipeline(plOpts...)
		if err := p.Start(context.Background()); err != nil {
			rt.Violate("C42/start-failed", "Start: %v", err)
			return
		}
		// results and errors drainers
		resultsClosed, errorsClosed := false, false
		go func() {
			for item := range p.Results() {
				// read the item first: its accessors take a lock (a scheduling point), and the
				// main task polls b.results, so the record is updated only when it is complete
				valid, appliedFlag := item.IsValid(), item.IsApplied()
				if b := byIdx[item.Tip().BlockNumber]; b != nil {
					b.resValid = valid
					b.results++
					if b.resValid {
						rt.Hit("pl.block-validated")
					}
					if !b.good && appliedFlag {
						rt.Violate("C42/failed-block-applied", "block %d does not decode but its result says applied", b.idx)
					}
					if b.valFail && (appliedFlag || valid) {
						rt.Violate("C42/failed-block-applied", "block %d cannot validate (no epoch nonce) but its result says valid=%v applied=%v", b.idx, valid, appliedFlag)
					}
				}
			}
			resultsClosed = true
		}()
		go func() {
			for range p.Errors() {
			}
			errorsClosed = true
		}()
		// submitters
		fin := make(chan struct{}, nsub)
		for task := 0; task < nsub; task++ {
			task := task
			go func() {
				defer func() { fin <- struct{}{} }()
				var retryB *plBlock
				var retryType uint
				var retryData []byte
				for i := 0; i < perSub; i++ {
					fb := blocks[pick("op", len(blocks))]
					if valWorkers > 0 && chance("op", 1, 2) {
						fb = validConwayBlock() // passes validation: applied, in order
					}
					b := &plBlock{idx: len(all) + 1, good: true, task: task, valFail: failSlot[fb.Slot]}
					data := fb.Data
					if chance("op", 1, 5) {
						b.good = false
						data = data[:40+pick("op", 40)]
					}
					all = append(all, b)
					byIdx[uint64(b.idx)] = b
					// "no deadline" is ten simulated minutes: a pipeline that has stopped moving must not
					// keep the submitter (and with it the judgement of the run) waiting for ever
					ctx, cancelBase := context.WithTimeout(context.Background(), 10*time.Minute)
					var cancel context.CancelFunc
					if expiring && chance("op", 1, 2) {
						ctx, cancel = context.WithTimeout(ctx, oneOf("op", time.Millisecond, 20*time.Millisecond, 200*time.Millisecond))
					}
					b.inv = rt.Stamp()
					b.err = p.Submit(ctx, fb.Type, data, pcommon.Tip{BlockNumber: uint64(b.idx)})
					b.ret = rt.Stamp()
					if cancel != nil {
						cancel()
					}
					cancelBase()
					if b.err != nil && !stopping {
						rt.Hit("pl.submit-failed")
						rt.Fault("F14.context-expired")
					}
					if retryB != nil {
						// the caller whose earlier Submit timed out tries that block again, with the
						// same arguments and no deadline: from here on it is a later submission
						r := retryB
						retryB = nil
						r.retried = true
						r.inv = rt.Stamp()
						rctx, rcancel := context.WithTimeout(context.Background(), 10*time.Minute)
						r.err = p.Submit(rctx, retryType, retryData, pcommon.Tip{BlockNumber: uint64(r.idx)})
						r.ret = rt.Stamp()
						rcancel()
						rt.Hit("pl.retried-failed-submission")
					} else if retryFailed && b.err != nil && !stopping {
						retryB, retryType, retryData = b, fb.Type, data
					}
					if chance("op", 1, 4) {
						sleep(oneOf("op", time.Millisecond, 30*time.Millisecond, 500*time.Millisecond))
					}
				}
			}()
		}
		// WaitForDrain callers
		type drainRec struct {
			inv, ret uint64
			err      error
		}
		var drains []*drainRec
		drainFin := make(chan struct{}, 4)
		for d := 0; d < ndrain; d++ {
			go func() {
				defer func() { drainFin <- struct{}{} }()
				ncalls := 1
				if focus {
					ncalls = 3
				}
				for k := 0; k < ncalls; k++ {
					sleep(oneOf("op", time.Millisecond, 40*time.Millisecond, 400*time.Millisecond, 3*time.Second))
					ctx, cancel := context.WithTimeout(context.Background(), 30*time.Second)
					r := &drainRec{inv: rt.Stamp()}
					r.err = p.WaitForDrain(ctx)
					r.ret = rt.Stamp()
					cancel()
					drains = append(drains, r)
				}
			}()
		}
		stopRet := false
		doStop := func() {
			stopping = true
			go func() {
				_ = p.Stop()
				stopRet = true
			}()
		}
		if stopEarly {
			sleep(oneOf("op", time.Millisecond, 30*time.Millisecond, 300*time.Millisecond, 2*time.Second))
			doStop()
		}
		for i := 0; i < nsub; i++ {
			<-fin
		}
		for i := 0; i < ndrain; i++ {
			<-drainFin
		}
		// a last drain once every Submit has returned: it covers every accepted block
		if !stopEarly {
			ctx, cancel := context.WithTimeout(context.Background(), 3*time.Minute)
			r := &drainRec{inv: rt.Stamp()}
			r.err = p.WaitForDrain(ctx)
			r.ret = rt.Stamp()
			cancel()
			drains = append(drains, r)
			if r.err == nil {
				rt.Hit("pl.final-drain-returned")
			} else {
				rt.Hit("pl.final-drain-failed")
			}
		}
		desc := fmt.Sprintf("workers=%d buffer=%d submitters=%dx%d slowApply=%d expiringCtx=%v stopEarly=%v maxPending=%d validateWorkers=%d", workers, buf, nsub, perSub, slowApply, expiring, stopEarly, maxPending, valWorkers)
		// ---- C43: a successful WaitForDrain really waited
		for _, d := range drains {
			if d.err != nil {
				continue
			}
			rt.Hit("pl.drain-returned")
			// every submission was over before this wait began and none had been
			// refused: then no block may be inside the validator when it returns
			allBefore := true
			for _, b := range all {
				if b.err != nil || b.ret == 0 || b.ret >= d.inv {
					allBefore = false
				}
			}
			if allBefore && !stopping {
				for _, vc := range valCalls {
					if vc.end == 0 || vc.end > d.ret {
						rt.Violate("C43/drain-returned-early", "%s: WaitForDrain began at event %d after every Submit had returned and returned nil at event %d, but a block was inside a validate worker (nonce provider called at event %d, returned at %d)", desc, d.inv, d.ret, vc.start, vc.end)
						return
					}
				}
				rt.Hit("pl.drain-after-all-submits")
			}
			for _, b := range all {
				if b.err != nil || b.ret >= d.inv || !b.good {
					continue
				}
				if valWorkers > 0 {
					// with validation on, whether the block is applied at all is the
					// validator's verdict; only "no apply call after the drain" is judged
					for k, st := range b.applyStart {
						if stopping {
							break
						}
						if st > d.ret {
							rt.Violate("C43/drain-returned-early", "%s: WaitForDrain returned nil at event %d, but block %d (submitted before the wait began) was applied afterwards (event %d)", desc, d.ret, b.idx, st)
							return
						}
						if k >= len(b.applyEnd) || b.applyEnd[k] > d.ret {
							rt.Violate("C43/drain-returned-early", "%s: WaitForDrain returned nil at event %d while the apply call of block %d (submitted before the wait began) was still running", desc, d.ret, b.idx)
							return
						}
					}
					continue
				}
				late := false
				for _, st := range b.applyStart {
					if st > d.ret {
						late = true
					}
				}
				unfinished := len(b.applyEnd) == 0 || b.applyEnd[0] > d.ret
				if (late || unfinished) && !stopping {
					rt.Hit("pl.drain-covered-inflight-block")
					rt.Violate("C43/drain-returned-early", "%s: WaitForDrain returned nil at event %d, but block %d (submitted before the wait began) was still being processed: apply started %v ended %v", desc, d.ret, b.idx, b.applyStart, b.applyEnd)
					return
				}
			}
		}
		if !stopEarly {
			// let everything that was accepted flow through: 2 simulated minutes after the last submission
			for i := 0; i < 600; i++ {
				pendingGood := 0
				for _, b := range all {
					if b.err == nil && b.results == 0 {
						pendingGood++
					}
				}
				if pendingGood == 0 {
					break
				}
				sleep(200 * time.Millisecond)
			}
			// ---- C44: a failed submission does not stall later blocks
			failedSeen := false
			for _, b := range all {
				if b.err != nil {
					failedSeen = true
					continue
				}
				if b.retried {
					failedSeen = true // its first Submit failed; the repeated one is a later submission
				}
				if failedSeen && b.good && len(b.applyStart) == 0 && (valWorkers == 0 || b.resValid) {
					rt.Violate("C44/later-block-never-applied", "%s: block %d was submitted successfully after a failed submission and was not applied within 2 simulated minutes", desc, b.idx)
					return
				}
			}
			if failedSeen {
				rt.Hit("pl.survived-failed-submission")
			}
			// ---- C42 (no Stop yet): exactly the decodable accepted blocks, once, in order, each on Results once
			for _, b := range all {
				if b.err != nil {
					if len(b.applyStart) > 0 {
						rt.Violate("C42/rejected-submission-applied", "%s: block %d whose Submit returned %v was applied", desc, b.idx, b.err)
						return
					}
					continue
				}
				want := 0
				if b.good {
					want = 1
				}
				if valWorkers > 0 && (b.valFail || !b.resValid) {
					want = 0 // did not validate: never applied
				}
				if len(b.applyStart) != want {
					rt.Violate("C42/apply-count", "%s: block %d (decodable=%v, nonce refused=%v, result says valid=%v) was applied %d times, expected %d", desc, b.idx, b.good, b.valFail, b.resValid, len(b.applyStart), want)
					return
				}
				if b.results != 1 {
					rt.Violate("C42/results-count", "%s: block %d appeared %d times on Results()", desc, b.idx, b.results)
					return
				}
			}
			rt.Hit("pl.full-run-checked")
			doStop()
		}
		// ---- order (always): apply calls in strictly increasing sequence order
		for i := 1; i < len(applyOrder); i++ {
			if applyOrder[i] <= applyOrder[i-1] {
				rt.Violate("C42/apply-order", "%s: apply call for sequence %d came after sequence %d", desc, applyOrder[i], applyOrder[i-1])
				return
			}
		}
		// submission order: per task, and in real time
		var applied []*plBlock
		for _, b := range all {
			if len(b.applyStart) > 0 {
				applied = append(applied, b)
			}
			if len(b.applyStart) > 1 {
				rt.Violate("C42/apply-count", "%s: block %d applied %d times", desc, b.idx, len(b.applyStart))
				return
			}
		}
		for _, a := range applied {
			for _, b := range applied {
				if a.ret < b.inv && a.applyStart[0] > b.applyStart[0] {
					rt.Violate("C42/submission-order", "%s: block %d's Submit returned before block %d's was invoked, yet it was applied later", desc, a.idx, b.idx)
					return
				}
			}
		}
		// ---- Stop returns, channels close, tasks exit
		for i := 0; i < 600 && !stopRet; i++ {
			sleep(200 * time.Millisecond)
		}
		if !stopRet {
			rt.Violate("C42/stop-hangs", "%s: Stop had not returned after 2 simulated minutes", desc)
			return
		}
		for i := 0; i < 300 && !(resultsClosed && errorsClosed); i++ {
			sleep(200 * time.Millisecond) // the drainers themselves may be stalled
		}
		if !resultsClosed || !errorsClosed {
			rt.Violate("C42/channels-not-closed", "%s: after Stop, Results closed=%v Errors closed=%v", desc, resultsClosed, errorsClosed)
			return
		}
		if live := libTasksAlive(); len(live) > 0 {
			rt.Violate("C42/goroutines-after-stop", "%s: %d pipeline tasks alive after Stop: %s", desc, len(live), fmtTasks(live))
			return
		}
		if stopEarly {
			rt.Hit("pl.stop-during-submissions")
		}
	}
}
