package sim

import (
	"fmt"
	"time"

	ouroboros "github.com/blinklabs-io/gouroboros"
	"github.com/blinklabs-io/gouroboros/cbor"
	"github.com/blinklabs-io/gouroboros/protocol/txsubmission"
	rt "github.com/blinklabs-io/gouroboros/verifsimrt"
)

// Scenario TXSUB (C24): the tx-submission inbound side (Server API) of a real
// Connection against a real outbound side (Client callbacks returning any number
// of ids), checked on the wire against a model acknowledgement window; plus raw
// peers for out-of-range counts.

func init() {
	register(&Scenario{Name: "txsub", Setup: txSubSetup})
	register(&Scenario{Name: "txsub-raw", Setup: txSubRawSetup})
}

type reqTxIdsWire struct {
	blocking bool
	ack, req uint64
}

// parseRequestTxIds decodes [0, blocking, ack, req] without the library's message types.
func parseRequestTxIds(m []byte) (reqTxIdsWire, bool) {
	var arr []any
	if _, err := cbor.Decode(m, &arr); err != nil || len(arr) != 4 {
		return reqTxIdsWire{}, false
	}
	b, ok1 := arr[1].(bool)
	a, ok2 := arr[2].(uint64)
	r, ok3 := arr[3].(uint64)
	return reqTxIdsWire{b, a, r}, ok1 && ok2 && ok3
}

func txSubSetup(s *rt.Sim, tier string) func() {
	schedCfg(s, true)
	s.Cfg.MaxSteps = 80000
	s.Cfg.MaxStall = 200 * time.Millisecond
	s.Cfg.Horizon = 6 * time.Hour
	return func() {
		ncfg := drawNetCfg(true)
		if ncfg.BufCap > 0 && ncfg.BufCap < 8192 {
			ncfg.BufCap = 8192
		}
		if ncfg.Latency > 20*time.Millisecond {
			ncfg.Latency = 20 * time.Millisecond
		}
		ncfg.Jitter = 0
		pair := NewPair(ncfg)
		// outbound side (client): returns any number of ids
		var replied []int // ids per ReplyTxIds, in order
		stopOn := -1
		if chance("cfg", 1, 3) {
			stopOn = pick("cfg", 8)
		}
		reqSeen := 0
		var doneAfterNonBlocking bool
		nextId := byte(0)
		reqIds := func(ctx txsubmission.CallbackContext, blocking bool, ack, req uint16) ([]txsubmission.TxIdAndSize, error) {
			n := reqSeen
			reqSeen++
			if n == stopOn {
				if !blocking {
					doneAfterNonBlocking = true
				}
				return nil, txsubmission.ErrStopServerProcess
			}
			cnt := pick("op", int(req)+3)
			if cnt > 200 && !chance("op", 1, 20) {
				cnt = pick("op", 200)
			}
			if blocking && cnt == 0 {
				cnt = 1
			}
			if chance("op", 1, 8) {
				cnt = int(req) + 1 + pick("op", 5) // more than requested
			}
			var out []txsubmission.TxIdAndSize
			for i := 0; i < cnt; i++ {
				nextId++
				out = append(out, txsubmission.TxIdAndSize{TxId: txsubmission.TxId{EraId: 5, TxId: [32]byte{nextId, byte(n)}}, Size: 100})
			}
			replied = append(replied, cnt)
			return out, nil
		}
		reqTxs := func(ctx txsubmission.CallbackContext, ids []txsubmission.TxId) ([]txsubmission.TxBody, error) {
			var out []txsubmission.TxBody
			for range ids {
				out = append(out, txsubmission.TxBody{EraId: 5, TxBody: []byte{0x84, 0xa0, 0xa0, 0xf5, 0xf6}})
			}
			return out, nil
		}
		inited := false
		cCfg := txsubmission.NewConfig(txsubmission.WithRequestTxIdsFunc(reqIds), txsubmission.WithRequestTxsFunc(reqTxs))
		sCfg := txsubmission.NewConfig(txsubmission.WithInitFunc(func(txsubmission.CallbackContext) error { inited = true; return nil }))
		co := connOpts{ntn: true, magic: 42, keepAlive: true}
		so := connOpts{ntn: true, magic: 42, server: true}
		var cConn, sConn *ouroboros.Connection
		var cErr, sErr error
		cRet, sRet := false, false
		go func() {
			sConn, sErr = ouroboros.NewConnection(append(so.options(pair.B), ouroboros.WithTxSubmissionConfig(sCfg))...)
			sRet = true
		}()
		go func() {
			cConn, cErr = ouroboros.NewConnection(append(co.options(pair.A), ouroboros.WithTxSubmissionConfig(cCfg))...)
			cRet = true
		}()
		for i := 0; i < 600 && !(cRet && sRet); i++ {
			sleep(100 * time.Millisecond)
		}
		if !cRet || !sRet || cErr != nil || sErr != nil {
			rt.Hit("txsub.setup-failed")
			return
		}
		cw, sw := watchConn(cConn), watchConn(sConn)
		cConn.TxSubmission().Client.Init()
		for i := 0; i < 600 && !inited; i++ {
			sleep(100 * time.Millisecond)
		}
		if !inited {
			rt.Hit("txsub.no-init")
			return
		}
		srv := sConn.TxSubmission().Server
		// out-of-range API calls are rejected locally
		wireReqs := func() []reqTxIdsWire {
			frames, _ := parseFrames(pair.BA.Log)
			ms, _, _ := splitMessages(protoStream(frames, txsubmission.ProtocolId, true))
			var out []reqTxIdsWire
			for _, m := range ms {
				if ty, err := msgType(m); err == nil && ty == 0 {
					if w, ok := parseRequestTxIds(m); ok {
						out = append(out, w)
					} else {
						rt.Violate("C24/request-undecodable", "RequestTxIds on the wire does not decode as [0, bool, uint, uint]: % x", m)
					}
				}
			}
			return out
		}
		for _, bad := range []int{-1, 65536, 100000} {
			if chance("op", 1, 3) {
				before := len(wireReqs())
				if _, err := srv.RequestTxIds(false, bad); err == nil {
					rt.Violate("C24/out-of-range-count-accepted", "RequestTxIds(reqCount=%d) succeeded", bad)
					return
				}
				sleep(time.Second)
				if len(wireReqs()) != before {
					rt.Violate("C24/out-of-range-count-sent", "RequestTxIds(reqCount=%d) wrote a request to the wire", bad)
					return
				}
				rt.Hit("txsub.out-of-range-api-call")
			}
		}
		rounds := 1 + pick("cfg", 14)
		stopped := false
		for r := 0; r < rounds && !stopped; r++ {
			blocking := chance("op", 1, 3)
			req := oneOf("op", 1, 2, 3, 10, 0, 65535)
			if blocking && req == 0 {
				req = 1
			}
			if req == 65535 && chance("op", 2, 3) {
				req = 5
			}
			ids, err := srv.RequestTxIds(blocking, req)
			if err != nil {
				stopped = true
				break
			}
			if len(ids) > 0 && chance("op", 1, 2) {
				var want []txsubmission.TxId
				for _, id := range ids[:1+pick("op", len(ids))] {
					want = append(want, id.TxId)
				}
				if len(want) > 10 {
					want = want[:10]
				}
				if _, err := srv.RequestTxs(want); err != nil {
					stopped = true
				}
			}
		}
		sleep(5 * time.Second)
		if pair.A.Deadline+pair.B.Deadline > 0 || keepAliveTimedOut(cw, sw) {
			return
		}
		// the wire against the model acknowledgement window
		reqs := wireReqs()
		unacked := 0
		for i, w := range reqs {
			if w.ack > 65535 || w.req > 65535 {
				rt.Violate("C24/count-out-of-range-on-wire", "RequestTxIds #%d carries ack=%d req=%d", i, w.ack, w.req)
				return
			}
			if int(w.ack) > unacked {
				rt.Violate("C24/acknowledges-more-than-received", "RequestTxIds #%d acknowledges %d ids, only %d were received and not yet acknowledged (replies so far: %v)", i, w.ack, unacked, replied[:min(i, len(replied))])
				return
			}
			unacked -= int(w.ack)
			if i < len(replied) {
				unacked += replied[i]
			}
		}
		if len(reqs) > 1 {
			rt.Hit("txsub.multi-round")
		}
		// Done only in answer to a blocking request
		frames, _ := parseFrames(pair.AB.Log)
		cms, _, _ := splitMessages(protoStream(frames, txsubmission.ProtocolId, false))
		doneOnWire := false
		for _, m := range cms {
			if ty, err := msgType(m); err == nil && ty == 4 {
				doneOnWire = true
			}
		}
		if doneOnWire {
			rt.Hit("txsub.done-sent")
			last := reqs[len(reqs)-1]
			if !last.blocking || doneAfterNonBlocking {
				rt.Violate("C24/done-after-non-blocking-request", "the outbound side sent Done in answer to a non-blocking request")
				return
			}
		}
		if doneAfterNonBlocking {
			rt.Hit("txsub.stop-during-non-blocking")
			if len(cw.errs) == 0 {
				rt.Violate("C24/stop-during-non-blocking-not-rejected", "ErrStopServerProcess in a non-blocking request produced no error (server errors %v)", sw.errs)
				return
			}
		}
		cConn.Close()
		sConn.Close()
	}
}

// txSubRawSetup: a raw inbound peer sends RequestTxIds with counts around and
// beyond the uint16 range to a real outbound side.
func txSubRawSetup(s *rt.Sim, tier string) func() {
	schedCfg(s, true)
	s.Cfg.MaxSteps = 40000
	s.Cfg.MaxStall = 200 * time.Millisecond
	s.Cfg.Horizon = 2 * time.Hour
	return func() {
		pair := NewPair(drawNetCfg(false))
		calls := 0
		reqIds := func(ctx txsubmission.CallbackContext, blocking bool, ack, req uint16) ([]txsubmission.TxIdAndSize, error) {
			calls++
			return []txsubmission.TxIdAndSize{{TxId: txsubmission.TxId{EraId: 5, TxId: [32]byte{1}}, Size: 10}}, nil
		}
		cCfg := txsubmission.NewConfig(txsubmission.WithRequestTxIdsFunc(reqIds),
			txsubmission.WithRequestTxsFunc(func(txsubmission.CallbackContext, []txsubmission.TxId) ([]txsubmission.TxBody, error) {
				return nil, nil
			}))
		co := connOpts{ntn: true, magic: 42}
		peer := newRawPeer(pair.B)
		var conn *ouroboros.Connection
		var cErr error
		connRet := false
		go func() {
			conn, cErr = ouroboros.NewConnection(append(co.options(pair.A), ouroboros.WithTxSubmissionConfig(cCfg))...)
			connRet = true
		}()
		if rawAcceptHighest(peer, co.table().m, co.magic, false, nil) == 0 {
			return
		}
		for i := 0; i < 600 && !connRet; i++ {
			sleep(100 * time.Millisecond)
		}
		if !connRet || cErr != nil {
			return
		}
		peer.keepAlive(conn.Muxer(), true)
		watch := watchConn(conn)
		conn.TxSubmission().Client.Init()
		for i := 0; i < 600 && len(peer.stream(txsubmission.ProtocolId, false)) == 0; i++ {
			sleep(100 * time.Millisecond)
		}
		ack := oneOf[uint64]("op", 0, 1, 65535, 65536, 70000, 1<<32)
		req := oneOf[uint64]("op", 1, 3, 65535, 65536, 70000, 1<<32)
		blocking := chance("op", 1, 2)
		m := []byte{0x84, 0x00, 0xf4}
		if blocking {
			m[2] = 0xf5
		}
		m = cborUint(m, 0, ack)
		m = cborUint(m, 0, req)
		_ = peer.sendMsg(txsubmission.ProtocolId, true, m)
		sleep(time.Minute)
		if pair.A.Deadline > 0 {
			return
		}
		desc := fmt.Sprintf("RequestTxIds(blocking=%v, ack=%d, req=%d)", blocking, ack, req)
		if ack > 65535 || req > 65535 {
			rt.Hit("txsubraw.out-of-range")
			if calls > 0 {
				rt.Violate("C24/out-of-range-request-served", "%s reached the application callback", desc)
				return
			}
			if len(watch.errs) == 0 {
				rt.Violate("C24/out-of-range-request-not-rejected", "%s produced no error", desc)
				return
			}
		} else {
			rt.Hit("txsubraw.in-range")
			if calls != 1 || len(watch.errs) > 0 {
				rt.Violate("C24/in-range-request-rejected", "%s: callback calls %d, errors %v", desc, calls, watch.errs)
				return
			}
		}
		conn.Close()
		peer.close()
	}
}
