package sim

import (
	"fmt"
	"strings"
	"time"

	"github.com/blinklabs-io/gouroboros/muxer"
	"github.com/blinklabs-io/gouroboros/protocol"
	"github.com/blinklabs-io/gouroboros/protocol/blockfetch"
	"github.com/blinklabs-io/gouroboros/protocol/chainsync"
	rt "github.com/blinklabs-io/gouroboros/verifsimrt"
)

// Scenario BACKPRESSURE (C13): a real receiving engine with a stalling handler
// is fed by a raw peer that streams valid messages as fast as the transport
// accepts them; plus the oversize-message and endless-incomplete-CBOR arms.

func init() {
	register(&Scenario{Name: "backpressure", Setup: backpressureSetup})
}

func backpressureSetup(s *rt.Sim, tier string) func() {
	schedCfg(s, true)
	s.Cfg.MaxSteps = 150000
	s.Cfg.MaxStall = 30 * time.Second
	s.Cfg.Horizon = 48 * time.Hour
	arm := []int{0, 0, 0, 1, 2}[s.Tape.Choose("cfg", 5)] // 0 fast-valid, 1 oversize, 2 endless incomplete
	knob := 0
	if arm == 2 {
		knob = []int{70000, 200000, 1 << 20, 0}[s.Tape.Choose("cfg", 4)]
		if knob == 0 && tier == "quick" {
			knob = 300000
		}
		if knob > 0 {
			s.SetKnob("maxReadBufferSize", knob)
		}
	}
	return func() {
		// which state map
		variant := weighted("cfg", 5, 2, 1) // stream with small limits, block-fetch client (Streaming), chain-sync NtN client
		if tier == "quick" && variant != 0 && !chance("cfg", 1, 3) {
			variant = 0
		}
		var sm protocol.StateMap
		var init, recvState protocol.State
		var id uint16
		var label string
		var recvType uint8
		localRole := protocol.ProtocolRoleServer
		peerResp := false
		var prelude func(ep *endpoint, peer *rawPeer) bool
		switch variant {
		case 0:
			limit := oneOf("cfg", 2000, 20000, 100000, 400)
			sm = streamStateMap(limit)
			init, recvState, id, label, recvType = streamIdle, streamIdle, 0x33, fmt.Sprintf("stream(limit %d)", limit), 0
			prelude = func(ep *endpoint, peer *rawPeer) bool { return true }
		case 1:
			sm = stripTimeouts(blockfetch.StateMap)
			init, recvState, id, label, recvType = blockfetch.StateIdle, blockfetch.StateStreaming, blockfetch.ProtocolId, "blockfetch client", 4
			localRole, peerResp = protocol.ProtocolRoleClient, true
			prelude = func(ep *endpoint, peer *rawPeer) bool {
				if ep.p.SendMessage(mkRaw(0, 1, 30)) != nil {
					return false
				}
				// a server answers a request only after it has seen it
				for i := 0; i < 600 && len(peer.stream(id, false)) == 0; i++ {
					sleep(time.Second)
				}
				if len(peer.stream(id, false)) == 0 {
					return false
				}
				return peer.sendMsg(id, true, mkRawBytes(2, 2, 12)) == nil
			}
		default:
			// chain-sync NtN client: the peer answers pipelined RequestNext with RollForward
			sm = stripTimeouts(chainsync.StateMapNtN)
			init, recvState, id, label, recvType = stateByName(sm, "Idle"), stateByName(sm, "CanAwait"), chainsync.ProtocolIdNtN, "chainsync-ntn client", 2
			localRole, peerResp = protocol.ProtocolRoleClient, true
		}
		limit := sm[recvState].PendingMessageByteLimit
		ncfg := &NetCfg{FragMode: weighted("cfg", 3, 2, 1), BufCap: oneOf("cfg", 65536, 200000, 8192)}
		pair := NewPair(ncfg)
		m := muxer.New(pair.A)
		var merrs []error
		go func() {
			for e := range m.ErrorChan() {
				merrs = append(merrs, e)
				rt.Log("muxer error: %v", e)
			}
		}()
		ep := newEndpoint("L:bp", m, id, sm, init, localRole, protocol.ProtocolModeNodeToNode, rawFromCbor)
		peer := newRawPeer(pair.B)
		// probes
		inHandler := 0
		handledBytes := 0
		admittedBytes, lastCounter, maxHeld := 0, 0, 0
		maxPending := 0
		overLimit := ""
		rt.S.SetProbe(func(name string, args ...any) {
			if name != "pendingRecvBytes" {
				return
			}
			v := args[2].(int)
			stId := args[3].(uint)
			lim := 0
			for _, k := range stateKeys(sm) {
				if k.Id == stId {
					lim = sm[k].PendingMessageByteLimit
				}
			}
			if v > maxPending {
				maxPending = v
			}
			if lim > 0 && v > lim+inHandler && overLimit == "" {
				overLimit = fmt.Sprintf("pending received bytes %d exceed the limit %d of state id %d (message in handler: %d bytes)", v, lim, stId, inHandler)
			}
			// independent of the counter's absolute value: an increase of the
			// counter is an admission of that many bytes; what was admitted and
			// whose handler has not returned is what the endpoint really holds
			if lastCounter >= 0 && v > lastCounter {
				admittedBytes += v - lastCounter
				held := admittedBytes - handledBytes
				if held > maxHeld {
					maxHeld = held
				}
				if lim > 0 && held > lim+inHandler && overLimit == "" {
					overLimit = fmt.Sprintf("%d bytes of admitted messages are unprocessed (admitted %d, handled %d), limit %d of state id %d (message in handler: %d bytes; the library's own counter says %d)", held, admittedBytes, handledBytes, lim, stId, inHandler, v)
				}
			}
			lastCounter = v
		})
		// external cross-check, not trusting the counter
		maxMsg := 0
		extViolation := ""
		pair.A.onRead = func() {
			if limit == 0 {
				return
			}
			unprocessed := int(pair.A.BytesIn) - handledBytes
			bound := limit + 12*(65535+8) + 2*maxMsg + 64
			if unprocessed > bound && extViolation == "" {
				extViolation = fmt.Sprintf("%d bytes read from the connection but not yet handled, bound %d (limit %d)", unprocessed, bound, limit)
			}
		}
		consumerSlow := true
		ep.onMsg = func(msg protocol.Message) error {
			n := len(msg.Cbor())
			inHandler = n
			if consumerSlow && chance("op", 2, 3) {
				sleep(oneOf("op", 50*time.Millisecond, 300*time.Millisecond, 2*time.Second))
			}
			inHandler = 0
			handledBytes += n + 0
			if variant == 2 {
				// chain-sync: every reply needs a fresh request
				_ = ep.p.SendMessage(mkRaw(0, 0, 12))
			}
			return nil
		}
		ep.p.Start()
		m.Start()
		// background traffic on its own protocol id, as a live peer's keep-alive would produce: an
		// idle muxer gives up after 120 s without a byte, which is not this scenario's subject and
		// used to make every "no error was reported" outcome inconclusive
		peer.keepAlive(m, peerResp)
		if variant == 2 {
			for i := 0; i < 5; i++ {
				_ = ep.p.SendMessage(mkRaw(0, 0, 12))
			}
		} else if !prelude(ep, peer) {
			return
		}
		desc := fmt.Sprintf("%s arm %d", label, arm)
		sizeMax := limit
		if sizeMax > 300000 {
			sizeMax = 300000
		}
		protoErr := func(sub string) bool {
			for _, e := range ep.errs {
				if strings.Contains(e.Error(), sub) {
					return true
				}
			}
			return false
		}
		switch arm {
		case 0:
			n := 5 + pick("op", 40)
			sentBytes := 0
			// knob (own stream): how the sender frames its stream. One message per segment (split
			// when larger), or the byte stream cut into full-size segments, so that several
			// messages share a segment and messages straddle segment boundaries
			packed := rt.Choose("op.x", 3) == 2
			var stream []byte
			for i := 0; i < n; i++ {
				sz := 12 + pick("op", sizeMax-11)
				if chance("op", 1, 6) {
					sz = sizeMax // exactly the limit (or the cap)
				}
				if sz > maxMsg {
					maxMsg = sz
				}
				b := mkRawBytes(recvType, uint32(i+10), sz)
				sentBytes += len(b)
				if packed {
					stream = append(stream, b...)
					continue
				}
				if err := peer.sendMsg(id, peerResp, b); err != nil {
					break
				}
			}
			if packed {
				rt.Hit("bp.packed-segments")
				segMax := []int{65535, 65535, 4000, 1500}[rt.Choose("op.x", 4)]
				for len(stream) > 0 {
					k := min(segMax, len(stream))
					if peer.send(id, peerResp, stream[:k]) != nil {
						break
					}
					stream = stream[k:]
				}
			}
			// the consumer resumes; everything must be handled
			consumerSlow = false
			for i := 0; i < 24*60 && len(ep.handled) < n && len(ep.errs) == 0 && len(merrs) == 0; i++ {
				sleep(time.Minute)
			}
			if pair.A.Deadline > 0 {
				rt.Hit("bp.inconclusive-read-deadline")
				return
			}
			if overLimit != "" {
				rt.Violate("C13/pending-bytes-over-limit", "%s: %s", desc, overLimit)
				return
			}
			if extViolation != "" {
				rt.Violate("C13/buffered-bytes-unbounded", "%s: %s", desc, extViolation)
				return
			}
			if len(ep.errs) > 0 || len(merrs) > 0 {
				rt.Violate("C13/error-for-fast-valid-sender", "%s: a fast sender of valid messages (each <= limit %d) caused: %v %v", desc, limit, ep.errs, merrs)
				return
			}
			if len(ep.handled) < n {
				rt.Violate("C13/backpressure-deadlock", "%s: %d of %d messages handled 24 simulated hours after the consumer resumed", desc, len(ep.handled), n)
				return
			}
			if maxHeld > limit/2 || maxPending > limit/2 {
				rt.Hit("bp.pending-above-half-limit")
			}
			rt.Hit("bp.fast-valid-complete")
		case 1:
			// some valid traffic, then one message larger than the limit
			for i := 0; i < pick("op", 4); i++ {
				_ = peer.sendMsg(id, peerResp, mkRawBytes(recvType, uint32(i+10), 12+pick("op", min(sizeMax-12, 3000))))
			}
			consumerSlow = false
			big := limit + 1 + pick("op", 3)
			if chance("op", 1, 3) {
				big = limit*2 + 7
			}
			_ = peer.sendMsg(id, peerResp, mkRawBytes(recvType, 999, big))
			sleep(2 * time.Hour)
			if pair.A.Deadline > 0 && len(ep.errs) == 0 {
				rt.Hit("bp.inconclusive-read-deadline")
				return
			}
			if !protoErr("oversized") && !protoErr("exceed") {
				rt.Violate("C13/oversize-message-accepted", "%s: a %d byte message in a state with limit %d produced no error (errs %v, handled %d)", desc, big, limit, ep.errs, len(ep.handled))
				return
			}
			if !ep.done {
				rt.Violate("C13/not-stopped-after-oversize", "%s: error reported but protocol still running", desc)
				return
			}
			for _, h := range ep.handled {
				if len(h.Data) > limit {
					rt.Violate("C13/oversize-message-handled", "%s: a %d byte message reached the handler", desc, len(h.Data))
				}
			}
			rt.Hit("bp.oversize")
		case 2:
			bound := rt.KnobInt("maxReadBufferSize", 16*1024*1024)
			// a byte string that claims 1 GiB and never ends
			head := []byte{0x82, recvType, 0x5a, 0x40, 0x00, 0x00, 0x00}
			_ = peer.send(id, peerResp, head)
			sent := len(head)
			// the size of the continuation segments is a knob like any other (own stream of draws):
			// a full segment (65535), one byte less, and smaller ones
			csz := []int{60000, 65535, 65534, 32768, 65535, 9000}[rt.Choose("op.x", 6)]
			if csz < 30000 && bound > 400000 {
				csz = 65535
			}
			chunk := make([]byte, csz)
			rt.Hit(fmt.Sprintf("bp.endless-chunk-%d", csz))
			for sent < bound+300000 {
				if err := peer.send(id, peerResp, chunk); err != nil {
					break
				}
				sent += len(chunk)
				if len(ep.errs) > 0 {
					break
				}
			}
			sleep(time.Hour)
			if pair.A.Deadline > 0 && len(ep.errs) == 0 {
				rt.Hit("bp.inconclusive-read-deadline")
				return
			}
			if !protoErr("read buffer exceeded") {
				rt.Violate("C13/incomplete-message-unbounded", "%s: %d bytes of an incomplete message sent (bound %d), no error (errs %v)", desc, sent, bound, ep.errs)
				return
			}
			if !ep.done {
				rt.Violate("C13/not-stopped-after-overflow", "%s: error reported but protocol still running", desc)
				return
			}
			rt.Hit("bp.endless-incomplete")
			if bound == 16*1024*1024 {
				rt.Hit("bp.endless-incomplete-real-16MiB")
			}
		}
		peer.close()
		ep.p.Stop()
		m.Stop()
	}
}
