// Package verifsimrt is the deterministic-simulation runtime that the
// instrumenter (cmd/instr) links into a scratch copy of gouroboros.
//
// It is dropped into the scratch copy as
// github.com/blinklabs-io/gouroboros/verifsimrt at check time; it is never
// committed to /repo.
//
// Execution model: every goroutine started by instrumented code is a Task.
// Exactly one task is released at a time by the scheduler (Sim.Run), which runs
// in the root goroutine of a testing/synctest bubble and only acts when
// synctest.Wait reports that every other goroutine is durably blocked. Every
// scheduling decision, select choice, stall and harness choice is drawn through
// Tape.Choose, so one tape is one execution.
//
// When no Sim is installed (S == nil) every wrapper degrades to the plain Go
// operation ("pass-through mode"), which is what lets the repository's own
// test-suite run against the instrumented copy.
package verifsimrt

import (
	"context"
	"crypto/sha256"
	"encoding/binary"
	"encoding/hex"
	"fmt"
	"hash"
	"runtime"
	"sort"
	"strings"
	"sync"
	"time"
)

// ---------------------------------------------------------------------------
// Tape

// Tape is the single source of nondeterminism of a run. In search mode values
// come from a PRNG and are recorded per stream; in replay mode they are read
// back per stream, and an exhausted stream or out-of-range value yields 0
// (always the "simplest" alternative).
type Tape struct {
	Streams map[string][]uint32
	pos     map[string]int
	replay  bool
	rng     splitmix
	Draws   int
}

type splitmix struct{ x uint64 }

func (s *splitmix) next() uint64 {
	s.x += 0x9e3779b97f4a7c15
	z := s.x
	z = (z ^ (z >> 30)) * 0xbf58476d1ce4e5b9
	z = (z ^ (z >> 27)) * 0x94d049bb133111eb
	return z ^ (z >> 31)
}

// NewSearchTape returns a tape that draws from a PRNG seeded with seed.
func NewSearchTape(seed uint64) *Tape {
	return &Tape{Streams: map[string][]uint32{}, pos: map[string]int{}, rng: splitmix{x: seed}}
}

// NewReplayTape returns a tape that replays the given streams.
func NewReplayTape(streams map[string][]uint32) *Tape {
	cp := map[string][]uint32{}
	for k, v := range streams {
		cp[k] = append([]uint32(nil), v...)
	}
	return &Tape{Streams: cp, pos: map[string]int{}, replay: true}
}

// Choose returns a value in [0,n).
func (t *Tape) Choose(stream string, n int) int {
	if n <= 1 {
		return 0
	}
	t.Draws++
	if t.replay {
		p := t.pos[stream]
		t.pos[stream] = p + 1
		s := t.Streams[stream]
		if p >= len(s) {
			return 0
		}
		v := int(s[p])
		if v >= n {
			return 0
		}
		return v
	}
	v := int(t.rng.next() % uint64(n))
	t.Streams[stream] = append(t.Streams[stream], uint32(v))
	return v
}

// Used returns, for a replay tape, the consumed prefix of each stream with
// out-of-range values normalised the way Choose read them; for a search tape
// it returns the recorded streams.
func (t *Tape) Used() map[string][]uint32 {
	out := map[string][]uint32{}
	for k, v := range t.Streams {
		if t.replay {
			p := t.pos[k]
			if p > len(v) {
				p = len(v)
			}
			v = v[:p]
		}
		// trim trailing zeros: exhausted streams read as zero anyway
		e := len(v)
		for e > 0 && v[e-1] == 0 {
			e--
		}
		if e > 0 {
			out[k] = append([]uint32(nil), v[:e]...)
		}
	}
	return out
}

// ---------------------------------------------------------------------------
// Sim

type taskState int

const (
	tsNew taskState = iota
	tsParked
	tsRunning
	tsBlocked // inside a real blocking operation (or lock-blocked)
	tsDone
)

// Task is one simulated goroutine.
type Task struct {
	ID         int
	Name       string // spawn site
	Site       string // last yield site
	resume     chan struct{}
	state      taskState
	lockKey    any
	stallUntil time.Time
	daemon     bool
	armed      bool // AfterFunc task whose timer has not fired
}

// Violation is the first property violation recorded in a run.
type Violation struct {
	Class string
	Msg   string
	Seq   uint64
	At    time.Duration
}

// Config holds the per-run scheduler knobs (set by the scenario from the tape).
type Config struct {
	SwitchDen     int           // a context switch is considered with probability 1/SwitchDen per step (1 = always uniform)
	StallPermille int           // per step probability (‰) of stalling a runnable task
	MaxSteps      int           // step budget
	Horizon       time.Duration // simulated time budget
	KeepLog       bool          // keep the full event log (replay / debugging)
	MaxStall      time.Duration // longest stall injected (0 = no cap)
	// StallWindow/StallBudget bound the injected stall time: within any StallWindow of simulated
	// time at most StallBudget is injected in total (0 = unbounded); further stalls in that window
	// last 1 ms. Scenarios whose subject has a
	// legitimate short timeout use it so that a chain of stalls on the one task everything waits
	// for cannot add up to that timeout (a slow node the library is designed to give up on).
	StallWindow time.Duration
	StallBudget time.Duration
	DrainSteps    int           // extra steps granted after main returned, to let tasks exit
	DrainTime     time.Duration // extra simulated time granted after main returned
}

// Sim is one simulated run.
type Sim struct {
	mu        sync.Mutex
	byGoid    map[uint64]*Task
	tasks     []*Task
	runnable  []*Task
	lockWait  map[any][]*Task
	onceState map[*sync.Once]int
	pools     map[*sync.Pool][]any
	running   *Task
	last      *Task
	wake      chan struct{}
	wait      func()
	start     time.Time

	Tape *Tape
	Cfg  Config

	Steps      int
	LibSteps   int // steps of tasks spawned by library code (sites under repo/)
	Switches   int
	Stalls     int
	stallHist  []stallRec
	Unowned    int
	seq        uint64
	logHash    hash.Hash
	schedHash  hash.Hash
	ring       []string
	ringPos    int
	FullLog    []string
	violation  *Violation
	Faults     map[string]int
	Probes     map[string]int
	Sites      map[string]int
	knobs      map[string]int
	probeFn    func(name string, args ...any)
	mainDone   bool
	Outcome    string
	panicStack string
	// PostCheck, if set by the scenario, is evaluated after the run (outside
	// the scheduler) and may report a violation found in the recorded history.
	PostCheck func() (class, msg string)
}

// S is the installed simulation, nil in pass-through mode.
var S *Sim

const ringSize = 256

// NewSim creates a run. wait must be synctest.Wait.
func NewSim(tape *Tape, wait func()) *Sim {
	return &Sim{
		byGoid:    map[uint64]*Task{},
		lockWait:  map[any][]*Task{},
		onceState: map[*sync.Once]int{},
		wake:      make(chan struct{}, 1),
		wait:      wait,
		Tape:      tape,
		Cfg:       Config{SwitchDen: 2, MaxSteps: 200000, Horizon: 24 * time.Hour, DrainSteps: 3000, DrainTime: 10 * time.Minute},
		logHash:   sha256.New(),
		schedHash: sha256.New(),
		ring:      make([]string, ringSize),
		Faults:    map[string]int{},
		Probes:    map[string]int{},
		Sites:     map[string]int{},
		knobs:     map[string]int{},
	}
}

func goid() uint64 {
	var buf [64]byte
	n := runtime.Stack(buf[:], false)
	var id uint64
	for _, c := range buf[10:n] {
		if c < '0' || c > '9' {
			break
		}
		id = id*10 + uint64(c-'0')
	}
	return id
}

// cur returns the task of the calling goroutine, adopting unknown goroutines
// (counted in Unowned: an instrumentation coverage alarm).
func (s *Sim) cur() *Task {
	g := goid()
	s.mu.Lock()
	t := s.byGoid[g]
	if t == nil {
		t = &Task{ID: len(s.tasks), Name: "adopted", resume: make(chan struct{}), daemon: true, state: tsRunning}
		s.tasks = append(s.tasks, t)
		s.byGoid[g] = t
		s.Unowned++
	}
	s.mu.Unlock()
	return t
}

func (s *Sim) signal() {
	select {
	case s.wake <- struct{}{}:
	default:
	}
}

func (s *Sim) event(sched bool, str string) {
	// caller holds s.mu
	s.seq++
	var b [8]byte
	binary.LittleEndian.PutUint64(b[:], s.seq)
	s.logHash.Write(b[:])
	s.logHash.Write([]byte(str))
	if sched {
		s.schedHash.Write([]byte(str))
		s.schedHash.Write([]byte{0})
	}
	line := ""
	if s.Cfg.KeepLog || !sched {
		line = fmt.Sprintf("%6d %12s %s", s.seq, time.Since(s.start).String(), str)
	}
	if s.Cfg.KeepLog {
		s.FullLog = append(s.FullLog, line)
	}
	if line != "" {
		s.ring[s.ringPos%ringSize] = line
		s.ringPos++
	}
}

// park marks t runnable and blocks until the scheduler releases it.
func (s *Sim) park(t *Task, site string, post bool) {
	s.mu.Lock()
	if !post && t.state != tsRunning {
		// the task reached a yield without having been released: it was woken
		// out of an operation the instrumenter did not see
		s.Unowned++
		s.event(false, fmt.Sprintf("UNOWNED wakeup: t%d %s reached %s in state %d", t.ID, t.Name, site, t.state))
	}
	t.Site = site
	t.state = tsParked
	s.runnable = append(s.runnable, t)
	if s.running == t {
		s.running = nil
	}
	s.mu.Unlock()
	s.signal()
	<-t.resume
}

// Yield is a scheduling point before a synchronisation operation.
func Yield(site string) {
	s := S
	if s == nil {
		return
	}
	s.park(s.cur(), site, false)
}

// PostOp is called after an operation that may have blocked: if the task lost
// the running role while blocked it parks before touching anything.
func PostOp(site string) {
	s := S
	if s == nil {
		return
	}
	t := s.cur()
	s.mu.Lock()
	still := s.running == t
	s.mu.Unlock()
	if still {
		return
	}
	s.park(t, site, true)
}

func (s *Sim) spawn(site string, daemon bool, f func()) *Task {
	s.mu.Lock()
	t := &Task{ID: len(s.tasks), Name: site, resume: make(chan struct{}), daemon: daemon, state: tsNew}
	s.tasks = append(s.tasks, t)
	s.mu.Unlock()
	go s.taskBody(t, f)
	return t
}

func (s *Sim) taskBody(t *Task, f func()) {
	g := goid()
	s.mu.Lock()
	s.byGoid[g] = t
	t.Site = "start"
	t.state = tsParked
	t.armed = false
	s.runnable = append(s.runnable, t)
	s.mu.Unlock()
	s.signal()
	<-t.resume
	defer func() {
		r := recover()
		s.mu.Lock()
		t.state = tsDone
		delete(s.byGoid, g)
		if s.running == t {
			s.running = nil
		}
		if r != nil && s.violation == nil {
			st := make([]byte, 16384)
			st = st[:runtime.Stack(st, false)]
			s.panicStack = string(st)
			s.violation = &Violation{Class: "panic", Msg: fmt.Sprintf("panic in task %d (%s): %v", t.ID, t.Name, r), Seq: s.seq, At: time.Since(s.start)}
			s.event(false, "PANIC "+s.violation.Msg)
		}
		s.mu.Unlock()
		s.signal()
	}()
	f()
}

// Go replaces the go statement.
func Go(site string, f func()) {
	s := S
	if s == nil {
		go f()
		return
	}
	s.spawn(site, false, f)
}

// GoDaemon starts a harness task that is never reported as leaked.
func GoDaemon(site string, f func()) {
	s := S
	if s == nil {
		go f()
		return
	}
	s.spawn(site, true, f)
}

// WgGo replaces sync.WaitGroup.Go.
func WgGo(site string, wg *sync.WaitGroup, f func()) {
	if S == nil {
		wg.Go(f)
		return
	}
	wg.Add(1)
	Go(site, func() { defer wg.Done(); f() })
}

// WgWait replaces sync.WaitGroup.Wait.
func WgWait(site string, wg *sync.WaitGroup) {
	if S == nil {
		wg.Wait()
		return
	}
	Yield(site)
	wg.Wait()
	PostOp(site)
}

// Sleep replaces time.Sleep.
func Sleep(site string, d time.Duration) {
	if S == nil {
		time.Sleep(d)
		return
	}
	Yield(site)
	time.Sleep(d)
	PostOp(site)
}

// AfterFunc replaces time.AfterFunc: the callback becomes a task whose id is
// fixed when the timer is armed.
func AfterFunc(site string, d time.Duration, f func()) *time.Timer {
	s := S
	if s == nil {
		return time.AfterFunc(d, f)
	}
	s.mu.Lock()
	t := &Task{ID: len(s.tasks), Name: site, resume: make(chan struct{}), state: tsNew, armed: true}
	s.tasks = append(s.tasks, t)
	s.mu.Unlock()
	return time.AfterFunc(d, func() { s.taskBody(t, f) })
}

func Recv[T any](site string, c <-chan T) T {
	if S == nil {
		return <-c
	}
	Yield(site)
	v := <-c
	PostOp(site)
	return v
}

func Recv2[T any](site string, c <-chan T) (T, bool) {
	if S == nil {
		v, ok := <-c
		return v, ok
	}
	Yield(site)
	v, ok := <-c
	PostOp(site)
	return v, ok
}

func Close[T any](site string, c chan<- T) {
	Yield(site)
	close(c)
}

func ZeroOf[T any](c <-chan T) (v T, ok bool) { return }
func ZeroSend[T any](c chan<- T) (v T)        { return }

// ---------------------------------------------------------------------------
// contexts with deadlines
//
// context.WithTimeout / WithDeadline cancel from a runtime timer goroutine that
// the scheduler does not control; when the deadline coincides with another
// timer (a ticker, say) the order of the two effects is decided by the Go
// runtime. Instrumented code therefore gets a context whose expiry is performed
// by a task.

type simCtx struct {
	context.Context // parent: Value lookups
	mu              sync.Mutex
	done            chan struct{}
	err             error
	deadline        time.Time
}

func (c *simCtx) Deadline() (time.Time, bool) { return c.deadline, true }
func (c *simCtx) Done() <-chan struct{}       { return c.done }
func (c *simCtx) Err() error {
	c.mu.Lock()
	defer c.mu.Unlock()
	return c.err
}

func (c *simCtx) cancel(err error) {
	c.mu.Lock()
	if c.err == nil {
		c.err = err
		close(c.done)
	}
	c.mu.Unlock()
}

// CtxWithTimeout replaces context.WithTimeout.
func CtxWithTimeout(site string, parent context.Context, d time.Duration) (context.Context, context.CancelFunc) {
	if S == nil {
		return context.WithTimeout(parent, d)
	}
	return CtxWithDeadline(site, parent, time.Now().Add(d))
}

// CtxWithDeadline replaces context.WithDeadline.
func CtxWithDeadline(site string, parent context.Context, dl time.Time) (context.Context, context.CancelFunc) {
	s := S
	if s == nil {
		return context.WithDeadline(parent, dl)
	}
	if pd, ok := parent.Deadline(); ok && pd.Before(dl) {
		dl = pd
	}
	c := &simCtx{Context: parent, done: make(chan struct{}), deadline: dl}
	tm := AfterFunc(site+"(deadline)", time.Until(dl), func() {
		Yield(site + "(expire)")
		c.cancel(context.DeadlineExceeded)
	})
	if pdone := parent.Done(); pdone != nil {
		s.spawn(site+"(ctx-parent)", true, func() {
			Yield(site + "(ctx-parent)")
			select {
			case <-pdone:
				PostOp(site + "(ctx-parent)")
				c.cancel(parent.Err())
			case <-c.done:
				PostOp(site + "(ctx-parent)")
			}
		})
	}
	return c, func() {
		Yield(site + "(cancel)")
		tm.Stop()
		c.cancel(context.Canceled)
	}
}

// ---------------------------------------------------------------------------
// locks

func (s *Sim) lockBlocked(t *Task, key any, site string) {
	s.mu.Lock()
	t.Site = site
	t.state = tsBlocked
	t.lockKey = key
	s.lockWait[key] = append(s.lockWait[key], t)
	if s.running == t {
		s.running = nil
	}
	s.mu.Unlock()
	s.signal()
	<-t.resume
}

func (s *Sim) unlocked(key any) {
	s.mu.Lock()
	if w := s.lockWait[key]; len(w) > 0 {
		for _, t := range w {
			t.state = tsParked
			t.lockKey = nil
		}
		s.runnable = append(s.runnable, w...)
		delete(s.lockWait, key)
	}
	s.mu.Unlock()
}

func Lock(site string, mu *sync.Mutex) {
	s := S
	if s == nil {
		mu.Lock()
		return
	}
	t := s.cur()
	s.park(t, site, false)
	for !mu.TryLock() {
		s.lockBlocked(t, mu, site)
	}
}

func Unlock(site string, mu *sync.Mutex) {
	mu.Unlock()
	if s := S; s != nil {
		s.unlocked(mu)
	}
}

func TryLock(site string, mu *sync.Mutex) bool {
	Yield(site)
	return mu.TryLock()
}

func RWLock(site string, mu *sync.RWMutex) {
	s := S
	if s == nil {
		mu.Lock()
		return
	}
	t := s.cur()
	s.park(t, site, false)
	for !mu.TryLock() {
		s.lockBlocked(t, mu, site)
	}
}

func RWUnlock(site string, mu *sync.RWMutex) {
	mu.Unlock()
	if s := S; s != nil {
		s.unlocked(mu)
	}
}

func RWRLock(site string, mu *sync.RWMutex) {
	s := S
	if s == nil {
		mu.RLock()
		return
	}
	t := s.cur()
	s.park(t, site, false)
	for !mu.TryRLock() {
		s.lockBlocked(t, mu, site)
	}
}

func RWRUnlock(site string, mu *sync.RWMutex) {
	mu.RUnlock()
	if s := S; s != nil {
		s.unlocked(mu)
	}
}

// PoolGet / PoolPut: sync.Pool is a source of nondeterminism of its own (per-P caches, emptied by
// the garbage collector). Under the simulator a pool is a per-run LIFO list owned by the run, so
// that what Get returns is a function of the schedule alone; outside it the real pool is used.
func PoolGet(site string, p *sync.Pool) any {
	s := S
	if s == nil {
		return p.Get()
	}
	s.mu.Lock()
	l := s.pools[p]
	if n := len(l); n > 0 {
		v := l[n-1]
		s.pools[p] = l[:n-1]
		s.mu.Unlock()
		return v
	}
	s.mu.Unlock()
	if p.New != nil {
		return p.New()
	}
	return nil
}

func PoolPut(site string, p *sync.Pool, v any) {
	s := S
	if s == nil {
		p.Put(v)
		return
	}
	s.mu.Lock()
	if s.pools == nil {
		s.pools = map[*sync.Pool][]any{}
	}
	s.pools[p] = append(s.pools[p], v)
	s.mu.Unlock()
}

func OnceDo(site string, o *sync.Once, f func()) {
	s := S
	if s == nil {
		o.Do(f)
		return
	}
	t := s.cur()
	s.park(t, site, false)
	for {
		s.mu.Lock()
		st := s.onceState[o]
		if st == 1 {
			s.mu.Unlock()
			s.lockBlocked(t, o, site)
			continue
		}
		if st == 0 {
			s.onceState[o] = 1
		}
		s.mu.Unlock()
		break
	}
	defer func() {
		s.mu.Lock()
		s.onceState[o] = 2
		s.mu.Unlock()
		s.unlocked(o)
	}()
	o.Do(f)
}

// ---------------------------------------------------------------------------
// atomics (pre-yield, then the operation)

// Pre yields and returns its argument: x.M(args) on an atomic becomes
// Pre(site, &x).M(args).
func Pre[P any](site string, p P) P {
	Yield(site)
	return p
}

// ---------------------------------------------------------------------------
// select

type Sel struct {
	site  string
	n     int
	start int
}

// SelectBegin yields and draws which case is polled first.
func SelectBegin(site string, n int) *Sel {
	sel := &Sel{site: site, n: n}
	s := S
	if s == nil {
		return sel
	}
	s.park(s.cur(), site, false)
	if n > 1 {
		sel.start = s.Tape.Choose("sel", n)
	}
	return sel
}

// Order returns the i-th case index to poll.
func (sel *Sel) Order(i int) int { return (sel.start + i) % sel.n }

// Woke is called after the blocking form of the select returned.
func (sel *Sel) Woke(idx int) { PostOp(sel.site) }

// End records the outcome.
func (sel *Sel) End(idx int) {
	s := S
	if s == nil {
		return
	}
	s.mu.Lock()
	s.event(true, fmt.Sprintf("sel %s>%d", sel.site, idx))
	s.Sites[fmt.Sprintf("%s>%d", sel.site, idx)]++
	s.mu.Unlock()
}

// ---------------------------------------------------------------------------
// map iteration and randomness

// MapKeys returns the keys of m in a tape-chosen order. Keys are first sorted
// by their %v rendering so that the order does not depend on Go's map seed.
func MapKeys[K comparable, V any](site string, m map[K]V) []K {
	keys := make([]K, 0, len(m))
	for k := range m {
		keys = append(keys, k)
	}
	s := S
	if s == nil || len(keys) < 2 {
		return keys
	}
	strs := make(map[K]string, len(keys))
	for _, k := range keys {
		strs[k] = fmt.Sprintf("%v", k)
	}
	sort.Slice(keys, func(i, j int) bool { return strs[keys[i]] < strs[keys[j]] })
	// rotate by a tape-chosen offset (every key can come first)
	off := s.Tape.Choose("map", len(keys))
	if off > 0 {
		keys = append(keys[off:], keys[:off]...)
	}
	return keys
}

// RandInt64N replaces math/rand/v2.Int64N in instrumented packages.
func RandInt64N(fallback func(int64) int64, n int64) int64 {
	s := S
	if s == nil {
		return fallback(n)
	}
	if n <= 0 {
		panic("invalid argument to Int64N")
	}
	// three-point distribution plus uniform: lowest, highest, anything
	switch s.Tape.Choose("librand", 4) {
	case 0:
		return 0
	case 1:
		return n - 1
	default:
		if n > 1<<30 {
			return int64(s.Tape.Choose("librand", 1<<30)) % n
		}
		return int64(s.Tape.Choose("librand", int(n)))
	}
}

// ---------------------------------------------------------------------------
// knobs and probes

// KnobInt returns the per-run override of a tuning constant, or def.
func KnobInt(name string, def int) int {
	s := S
	if s == nil {
		return def
	}
	s.mu.Lock()
	v, ok := s.knobs[name]
	s.mu.Unlock()
	if ok {
		return v
	}
	return def
}

// SetKnob overrides a tuning constant for this run.
func (s *Sim) SetKnob(name string, v int) {
	s.mu.Lock()
	s.knobs[name] = v
	s.mu.Unlock()
}

// Probe is called from probe anchors inserted by the instrumenter.
func Probe(name string, args ...any) {
	s := S
	if s == nil {
		return
	}
	if f := s.probeFn; f != nil {
		f(name, args...)
	}
}

// SetProbe installs the probe observer.
func (s *Sim) SetProbe(f func(name string, args ...any)) { s.probeFn = f }

// ---------------------------------------------------------------------------
// harness API

// Choose draws from the tape.
func Choose(stream string, n int) int {
	s := S
	if s == nil {
		return 0
	}
	return s.Tape.Choose(stream, n)
}

// Log records a harness event in the event log.
func Log(format string, args ...any) {
	s := S
	if s == nil {
		return
	}
	str := fmt.Sprintf(format, args...)
	s.mu.Lock()
	s.event(false, str)
	s.mu.Unlock()
}

// LibSteps returns the number of scheduler steps taken so far by tasks that
// library code spawned.
func LibSteps() int {
	s := S
	if s == nil {
		return 0
	}
	s.mu.Lock()
	defer s.mu.Unlock()
	return s.LibSteps
}

// Stamp returns a fresh, strictly increasing event sequence number.
func Stamp() uint64 {
	s := S
	if s == nil {
		return 0
	}
	s.mu.Lock()
	s.seq++
	v := s.seq
	s.mu.Unlock()
	return v
}

// Now returns simulated time since the start of the run.
func Now() time.Duration {
	s := S
	if s == nil {
		return 0
	}
	return time.Since(s.start)
}

// Violate records a property violation (first one wins) and ends the run.
func Violate(class string, format string, args ...any) {
	s := S
	if s == nil {
		return
	}
	msg := fmt.Sprintf(format, args...)
	s.mu.Lock()
	if s.violation == nil {
		s.violation = &Violation{Class: class, Msg: msg, Seq: s.seq, At: time.Since(s.start)}
	}
	s.event(false, "VIOLATION "+class+": "+msg)
	s.mu.Unlock()
}

// Fault counts an injected fault that actually fired.
func Fault(name string) {
	s := S
	if s == nil {
		return
	}
	s.mu.Lock()
	s.Faults[name]++
	s.mu.Unlock()
}

// Hit counts a coverage probe.
func Hit(name string) {
	s := S
	if s == nil {
		return
	}
	s.mu.Lock()
	s.Probes[name]++
	s.mu.Unlock()
}

// TaskInfo describes a live task.
type TaskInfo struct {
	ID     int
	Name   string
	Site   string
	State  string
	Daemon bool
}

// LiveTasks lists tasks that have not finished (excluding the caller).
func LiveTasks() []TaskInfo {
	s := S
	if s == nil {
		return nil
	}
	me := s.cur()
	s.mu.Lock()
	defer s.mu.Unlock()
	var out []TaskInfo
	for _, t := range s.tasks {
		if t == me || t.state == tsDone || t.armed {
			continue
		}
		st := map[taskState]string{tsNew: "new", tsParked: "runnable", tsRunning: "running", tsBlocked: "blocked"}[t.state]
		if t.lockKey != nil {
			st = "lock-blocked"
		}
		out = append(out, TaskInfo{ID: t.ID, Name: t.Name, Site: t.Site, State: st, Daemon: t.daemon})
	}
	return out
}

// FinishPostCheck runs the scenario's PostCheck and records its verdict.
func (s *Sim) FinishPostCheck() {
	if s.PostCheck == nil || s.violation != nil || s.Outcome != "done" {
		return
	}
	if class, msg := s.PostCheck(); class != "" {
		s.violation = &Violation{Class: class, Msg: msg, Seq: s.seq, At: time.Since(s.start)}
		s.logHash.Write([]byte("POSTCHECK " + class))
	}
}

// GetViolation returns the recorded violation, if any.
func (s *Sim) GetViolation() *Violation { return s.violation }

// PanicStack returns the stack of a recovered task panic.
func (s *Sim) PanicStack() string { return s.panicStack }

// LogHash / SchedHash identify the execution.
func (s *Sim) LogHash() string   { return hex.EncodeToString(s.logHash.Sum(nil)[:12]) }
func (s *Sim) SchedHash() string { return hex.EncodeToString(s.schedHash.Sum(nil)[:12]) }

// SimTime returns simulated time elapsed.
func (s *Sim) SimTime() time.Duration { return time.Since(s.start) }

// Tail returns the last recorded harness events.
func (s *Sim) Tail(n int) []string {
	var out []string
	start := s.ringPos - ringSize
	if start < 0 {
		start = 0
	}
	for i := start; i < s.ringPos; i++ {
		out = append(out, s.ring[i%ringSize])
	}
	if len(out) > n {
		out = out[len(out)-n:]
	}
	return out
}

// Dump lists unfinished tasks.
func (s *Sim) Dump() string {
	s.mu.Lock()
	defer s.mu.Unlock()
	var b strings.Builder
	for _, t := range s.tasks {
		if t.state != tsDone && !t.armed {
			fmt.Fprintf(&b, "  t%d %s @%s state=%d lock=%v\n", t.ID, t.Name, t.Site, t.state, t.lockKey != nil)
		}
	}
	return b.String()
}

// ---------------------------------------------------------------------------
// scheduler

var stallDurations = []time.Duration{
	time.Millisecond, 10 * time.Millisecond, 100 * time.Millisecond, time.Second,
	5 * time.Second, 30 * time.Second, 150 * time.Second, 10 * time.Minute,
}

// index into stallDurations, short stalls are more likely
var stallWeights = []int{0, 0, 0, 1, 1, 1, 2, 2, 2, 3, 3, 4, 4, 5, 6, 7}

type stallRec struct {
	at time.Time
	d  time.Duration
}

// stallAllowed applies Cfg.StallWindow/StallBudget and books the stall when it fits.
func (s *Sim) stallAllowed(now time.Time, d time.Duration) bool {
	if s.Cfg.StallWindow <= 0 || s.Cfg.StallBudget <= 0 {
		return true
	}
	keep := s.stallHist[:0]
	var sum time.Duration
	for _, r := range s.stallHist {
		if now.Sub(r.at) < s.Cfg.StallWindow {
			keep = append(keep, r)
			sum += r.d
		}
	}
	s.stallHist = keep
	if sum+d > s.Cfg.StallBudget {
		s.Probes["sched.stall-shortened-by-budget"]++
		return false
	}
	s.stallHist = append(s.stallHist, stallRec{now, d})
	return true
}

// Run drives the simulation until main returns, a violation is recorded, or
// the step / time budget is exhausted. It must be called from the root
// goroutine of a synctest bubble.
func (s *Sim) Run(main func()) {
	S = s
	defer func() { S = nil }()
	s.start = time.Now()
	s.spawn("main", true, func() {
		main()
		s.mu.Lock()
		s.mainDone = true
		s.mu.Unlock()
	})
	deadline := s.start.Add(s.Cfg.Horizon)
	draining := false
	drainSteps := 0
	for {
		s.wait()
		s.mu.Lock()
		if s.running != nil {
			// the released task blocked inside a real operation
			s.running.state = tsBlocked
			s.running = nil
		}
		now := time.Now()
		switch {
		case s.violation != nil:
			s.Outcome = "violation"
		case s.mainDone && !draining:
			// main returned: keep scheduling for a bounded drain phase so that
			// tasks that are shutting down can exit (keeps the process free of
			// parked goroutines); the run's verdict is already fixed
			draining = true
			drainSteps = s.Steps + s.Cfg.DrainSteps
			deadline = now.Add(s.Cfg.DrainTime)
		case s.Steps >= s.Cfg.MaxSteps && !draining:
			s.Outcome = "max-steps"
		}
		if draining && s.Outcome == "" {
			live := 0
			for _, t := range s.tasks {
				if t.state != tsDone && !t.armed {
					live++
				}
			}
			if live == 0 || s.Steps >= drainSteps {
				s.Outcome = "done"
			}
		}
		if s.Outcome != "" {
			s.mu.Unlock()
			return
		}
		// candidates: parked, not stalled; order: last-run task first, then by id
		var cand []*Task
		var nextStall time.Time
		for _, t := range s.runnable {
			if !t.stallUntil.IsZero() {
				if t.stallUntil.After(now) {
					if nextStall.IsZero() || t.stallUntil.Before(nextStall) {
						nextStall = t.stallUntil
					}
					continue
				}
				t.stallUntil = time.Time{}
			}
			cand = append(cand, t)
		}
		if len(cand) == 0 {
			s.mu.Unlock()
			if !now.Before(deadline) {
				s.mu.Lock()
				s.Outcome = "horizon"
				if draining {
					s.Outcome = "done"
				}
				s.mu.Unlock()
				return
			}
			until := deadline
			if !nextStall.IsZero() && nextStall.Before(until) {
				until = nextStall
			}
			select {
			case <-s.wake:
			default:
			}
			tm := time.NewTimer(until.Sub(now))
			select {
			case <-s.wake:
				tm.Stop()
			case <-tm.C:
			}
			continue
		}
		sort.Slice(cand, func(a, b int) bool {
			if (cand[a] == s.last) != (cand[b] == s.last) {
				return cand[a] == s.last
			}
			return cand[a].ID < cand[b].ID
		})
		// stall fault: deschedule one candidate for a simulated duration
		if s.Cfg.StallPermille > 0 && s.Tape.Choose("stall?", 1000) >= 1000-s.Cfg.StallPermille {
			k := s.Tape.Choose("stall.who", len(cand))
			d := stallDurations[stallWeights[s.Tape.Choose("stall.dur", len(stallWeights))]]
			if s.Cfg.MaxStall > 0 && d > s.Cfg.MaxStall {
				d = s.Cfg.MaxStall
			}
			if !s.stallAllowed(now, d) {
				// budget of the current window used up: the task is still descheduled (the
				// interleaving effect of a stall), but only for the shortest duration
				d = stallDurations[0]
			}
			cand[k].stallUntil = now.Add(d)
			s.Stalls++
			s.Faults["F12.stall"]++
			s.event(true, fmt.Sprintf("stall t%d %s", cand[k].ID, d))
			s.mu.Unlock()
			continue
		}
		k := 0
		if len(cand) > 1 {
			if s.Cfg.SwitchDen <= 1 || s.Tape.Choose("sw?", s.Cfg.SwitchDen) == s.Cfg.SwitchDen-1 {
				k = s.Tape.Choose("pick", len(cand))
			}
		}
		t := cand[k]
		for i, r := range s.runnable {
			if r == t {
				s.runnable = append(s.runnable[:i], s.runnable[i+1:]...)
				break
			}
		}
		if s.last != t {
			s.Switches++
		}
		s.last = t
		s.running = t
		t.state = tsRunning
		s.Steps++
		if strings.HasPrefix(t.Name, "repo/") {
			s.LibSteps++
		}
		s.event(true, fmt.Sprintf("t%d@%s", t.ID, t.Site))
		s.Sites[t.Site]++
		s.mu.Unlock()
		t.resume <- struct{}{}
	}
}
