// Package sim holds the simulated scenarios. Every file in this package
// (except *_test.go and files marked verif:noinstr) is rewritten by cmd/instr
// together with the library, so plain go statements, channels, selects and
// mutexes used here are scheduled by the same seeded scheduler.
package sim

import (
	"fmt"
	"sort"
	"time"

	rt "github.com/blinklabs-io/gouroboros/verifsimrt"
)

// Scenario is one simulated workload + oracle.
type Scenario struct {
	Name string
	// Setup draws the run configuration from the tape ("cfg" stream), sets
	// scheduler knobs and returns the main task body.
	Setup func(s *rt.Sim, tier string) func()
}

var scenarios = map[string]*Scenario{}

func register(sc *Scenario) { scenarios[sc.Name] = sc }

// ScenarioNames lists registered scenarios.
func ScenarioNames() []string {
	var out []string
	for k := range scenarios {
		out = append(out, k)
	}
	sort.Strings(out)
	return out
}

// pick draws from [0,n) on the given stream.
func pick(stream string, n int) int { return rt.Choose(stream, n) }

// chance returns true with probability num/den; the replay default (0) is false.
func chance(stream string, num, den int) bool { return rt.Choose(stream, den) >= den-num }

// oneOf picks one of the values; index 0 is the "simplest".
func oneOf[T any](stream string, vals ...T) T { return vals[rt.Choose(stream, len(vals))] }

// weighted picks an index with the given weights; index 0 is the replay default.
func weighted(stream string, w ...int) int {
	tot := 0
	for _, x := range w {
		tot += x
	}
	v := rt.Choose(stream, tot)
	for i, x := range w {
		if v < x {
			return i
		}
		v -= x
	}
	return 0
}

// schedCfg draws the scheduler knobs of a run (swarm style).
// It runs in Setup, before the simulation is installed, so it draws from the
// run's tape directly.
func schedCfg(s *rt.Sim, allowStall bool) {
	s.Cfg.SwitchDen = []int{1, 2, 4, 16}[s.Tape.Choose("cfg", 4)]
	if allowStall {
		s.Cfg.StallPermille = []int{0, 0, 2, 10, 40}[s.Tape.Choose("cfg", 5)]
		// default stall budget (a scenario may set a tighter one afterwards): no more than 45 s of
		// injected stall in any 100 s of simulated time, so that stalls alone - four 30 s stalls
		// of the harness's own main task before it has sent anything, for instance - cannot add
		// up to the muxer's 120 s idle read deadline and end a connection that the scenario then
		// blames on the library (C12 thorough, seed 6: 1 of 150 000 runs)
		s.Cfg.StallWindow = 100 * time.Second
		s.Cfg.StallBudget = 45 * time.Second
	}
}

// sleep is a plain simulated sleep.
func sleep(d time.Duration) { time.Sleep(d) }

// libTasksAlive returns the live tasks that were spawned by library code.
func libTasksAlive() []rt.TaskInfo {
	var out []rt.TaskInfo
	for _, t := range rt.LiveTasks() {
		if t.Daemon {
			continue
		}
		if len(t.Name) >= 5 && t.Name[:5] == "repo/" {
			out = append(out, t)
		}
	}
	return out
}

func fmtTasks(ts []rt.TaskInfo) string {
	s := ""
	for _, t := range ts {
		s += fmt.Sprintf("[t%d %s @%s %s]", t.ID, t.Name, t.Site, t.State)
	}
	return s
}
