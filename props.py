# Per-property check specification: scenarios (name, weight), run counts and budgets per tier,
# non-triviality probes, the counting rule reported in evidence.
REAL_NET = ["muxer (instrumented copy of the current tree)"]
STUB_NET = ["TCP connection (simnet.Conn: fragmentation, latency, bounded buffer, abrupt close, errors, deadlines)",
            "clock (testing/synctest fake clock)", "Go scheduler decisions (verifsimrt cooperative scheduler, PRNG tape)"]

def P(scenarios, quick, thorough, rule, nontrivial, expect=None, real=None, stubs=None, assumptions=None, budget=(120, 1500), detcheck=25):
    return dict(scenarios=scenarios, runs=dict(quick=quick, thorough=thorough), budget_s=dict(quick=budget[0], thorough=budget[1]),
                rule=rule, nontrivial=nontrivial, expect_probes=expect or nontrivial, real=real or REAL_NET, stubs=stubs or STUB_NET,
                assumptions=assumptions or [], detcheck=detcheck)

PROPS = {
 "C09": P([("mux", 3), ("mux-adv", 1)], 3000, 150000,
          "one evaluation = one simulated run (seeded schedule + fault tape) of two real muxers over simnet with 1-5 registrations, concurrent channel/Send senders and stalling receivers, or of one real muxer fed an offending frame by a raw peer; distinct = distinct schedule hash (sequence of task@site steps and select outcomes); non-trivial = at least one segment was delivered end-to-end or an offending frame was sent",
          ["mux.segment-delivered", "muxadv.zero", "muxadv.segm", "muxadv.wron"], expect=["mux.segment-delivered", "mux.frames-on-wire", "net.writer-blocked", "mux.connection-broken"]),
}
