"""rep(s, old, new): replace a block of lines ignoring its absolute indentation; the new block is re-indented accordingly."""
import re
def rep(s, old, new, cnt=1):
    ol = old.rstrip('\n').split('\n')
    pat = r'\n'.join(r'(?P<i%d>\t*)' % i + re.escape(l.lstrip('\t')) if l.strip() else r'[ \t]*' for i, l in enumerate(ol))
    ms = list(re.finditer(r'(?m)^' + pat + r'$', s))
    assert len(ms) == cnt, (old[:80], len(ms))
    for m in reversed(ms):
        have = len(m.group('i0')); base = len(ol[0]) - len(ol[0].lstrip('\t'))
        d = have - base
        nl = []
        for l in new.rstrip('\n').split('\n'):
            if not l.strip(): nl.append(''); continue
            if d >= 0: nl.append('\t' * d + l)
            else: nl.append(l[-d:] if l.startswith('\t' * -d) else l.lstrip('\t'))
        s = s[:m.start()] + '\n'.join(nl) + s[m.end():]
    return s
