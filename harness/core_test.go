package sim

// Worker process: runs simulated executions of one scenario, shrinks and
// re-verifies violations, writes a JSON summary. Not instrumented (_test.go).

import (
	"encoding/json"
	"fmt"
	"os"
	"runtime"
	"runtime/debug"
	"sort"
	"strconv"
	"strings"
	"sync/atomic"
	"testing"
	"testing/synctest"
	"time"

	rt "github.com/blinklabs-io/gouroboros/verifsimrt"
)

type runResult struct {
	Outcome   string
	Class     string
	Msg       string
	VSeq      uint64
	VAt       time.Duration
	Steps     int
	Switches  int
	SimTime   time.Duration
	LogHash   string
	SchedHash string
	Faults    map[string]int
	Probes    map[string]int
	Sites     map[string]int
	Unowned   int
	Streams   map[string][]uint32
	Tail      []string
	FullLog   []string
	Stack     string
	Leaked    bool
}

var watchdogDeadline atomic.Int64

func init() {
	go func() {
		for {
			time.Sleep(time.Second)
			d := watchdogDeadline.Load()
			if d != 0 && time.Now().UnixNano() > d {
				buf := make([]byte, 1<<20)
				n := runtime.Stack(buf, true)
				fmt.Fprintf(os.Stderr, "WATCHDOG: run exceeded wall-clock limit\n%s\n", buf[:n])
				os.Exit(3)
			}
		}
	}()
}

func runOne(t *testing.T, sc *Scenario, tape *rt.Tape, tier string, keepLog bool) *runResult {
	res := &runResult{}
	watchdogDeadline.Store(time.Now().Add(600 * time.Second).UnixNano())
	defer watchdogDeadline.Store(0)
	func() {
		defer func() {
			if r := recover(); r != nil {
				msg := fmt.Sprint(r)
				if strings.Contains(msg, "deadlock") || strings.Contains(msg, "blocked goroutines remain") {
					res.Leaked = true
					return
				}
				panic(r)
			}
		}()
		synctest.Test(t, func(t *testing.T) {
			s := rt.NewSim(tape, synctest.Wait)
			s.Cfg.KeepLog = keepLog
			main := sc.Setup(s, tier)
			s.Run(main)
			s.FinishPostCheck()
			res.Outcome = s.Outcome
			if v := s.GetViolation(); v != nil {
				res.Class, res.Msg, res.VSeq, res.VAt = v.Class, v.Msg, v.Seq, v.At
			}
			res.Steps, res.Switches, res.SimTime = s.Steps, s.Switches, s.SimTime()
			res.LogHash, res.SchedHash = s.LogHash(), s.SchedHash()
			res.Faults, res.Probes, res.Sites, res.Unowned = s.Faults, s.Probes, s.Sites, s.Unowned
			res.Streams = tape.Used()
			res.Tail = s.Tail(60)
			res.FullLog = s.FullLog
			res.Stack = s.PanicStack()
		})
	}()
	return res
}

func envInt(name string, def int) int {
	if v := os.Getenv(name); v != "" {
		if n, err := strconv.Atoi(v); err == nil {
			return n
		}
	}
	return def
}

func mixSeed(base uint64, run uint64) uint64 {
	x := base*0x9e3779b97f4a7c15 + run*0xbf58476d1ce4e5b9 + 0x1234567
	x ^= x >> 31
	x *= 0x94d049bb133111eb
	x ^= x >> 29
	return x
}

type replayFile struct {
	Property  string              `json:"property"`
	Scenario  string              `json:"scenario"`
	Tier      string              `json:"tier"`
	Class     string              `json:"class"`
	Msg       string              `json:"msg"`
	Seed      uint64              `json:"seed"`
	Run       uint64              `json:"run"`
	Tree      string              `json:"tree"`
	LogHash   string              `json:"log_hash"`
	SchedHash string              `json:"sched_hash"`
	Steps     int                 `json:"steps"`
	SimTime   string              `json:"sim_time"`
	VSeq      uint64              `json:"violation_seq"`
	VAt       string              `json:"violation_sim_time"`
	Faults    map[string]int      `json:"faults_fired"`
	Streams   map[string][]uint32 `json:"streams"`
	OrigDraws int                 `json:"original_draws"`
	MinDraws  int                 `json:"minimised_draws"`
	Tail      []string            `json:"last_events"`
	Stack     string              `json:"stack,omitempty"`
}

type violationOut struct {
	Class  string `json:"class"`
	Msg    string `json:"msg"`
	Replay string `json:"replay"`
	Known  bool   `json:"known"`
	Count  int    `json:"count"`
	Seed   uint64 `json:"seed"`
	Run    uint64 `json:"run"`
	Determ bool   `json:"deterministic"`
}

type workerOut struct {
	Scenario   string                   `json:"scenario"`
	Runs       int                      `json:"runs"`
	Outcomes   map[string]int           `json:"outcomes"`
	Steps      int64                    `json:"steps"`
	SimTimeS   float64                  `json:"sim_time_s"`
	Faults     map[string]int           `json:"faults"`
	Probes     map[string]int           `json:"probes"`
	Sites      map[string]int           `json:"sites"`
	SchedHash  []string                 `json:"sched_hashes"`
	Nontrivial []string                 `json:"nontrivial_hashes"`
	Unowned    int                      `json:"unowned"`
	Leaked     int                      `json:"leaked_bubbles"`
	Violations map[string]*violationOut `json:"violations"`
	Samples    []map[string]any         `json:"samples"`
	WallS      float64                  `json:"wall_s"`
	Nondet     []string                 `json:"nondeterministic"`
	HashList   []string                 `json:"log_hash_list,omitempty"`
}

func countDraws(m map[string][]uint32) int {
	n := 0
	for _, v := range m {
		n += len(v)
	}
	return n
}

// streams that carry workload/fault choices are minimised first
func streamOrder(m map[string][]uint32) []string {
	var ks []string
	for k := range m {
		ks = append(ks, k)
	}
	rank := func(k string) int {
		switch {
		case k == "cfg":
			return 5
		case k == "fault":
			return 0
		case k == "op":
			return 1
		case strings.HasPrefix(k, "stall"):
			return 2
		case strings.HasPrefix(k, "net"):
			return 3
		case k == "pick" || k == "sw?" || k == "sel" || k == "map":
			return 6
		}
		return 4
	}
	sort.Slice(ks, func(i, j int) bool {
		if rank(ks[i]) != rank(ks[j]) {
			return rank(ks[i]) < rank(ks[j])
		}
		return ks[i] < ks[j]
	})
	return ks
}

func cloneStreams(m map[string][]uint32) map[string][]uint32 {
	o := map[string][]uint32{}
	for k, v := range m {
		o[k] = append([]uint32(nil), v...)
	}
	return o
}

// shrink minimises the tape while the same violation class persists.
func shrink(t *testing.T, sc *Scenario, tier string, streams map[string][]uint32, class string, budget time.Duration, maxRuns int) (map[string][]uint32, int) {
	deadline := time.Now().Add(budget)
	runs := 0
	best := cloneStreams(streams)
	try := func(cand map[string][]uint32) bool {
		if runs >= maxRuns || time.Now().After(deadline) {
			return false
		}
		runs++
		r := runOne(t, sc, rt.NewReplayTape(cand), tier, false)
		if r.Class == class {
			best = r.Streams // normalised: consumed prefix, trailing zeros trimmed
			return true
		}
		return false
	}
	for pass := 0; pass < 6; pass++ {
		before := countDraws(best)
		for _, k := range streamOrder(best) {
			if _, ok := best[k]; !ok {
				continue
			}
			// 1. drop the whole stream
			c := cloneStreams(best)
			delete(c, k)
			if try(c) {
				continue
			}
			// 2. truncate (binary search on prefix length)
			lo, hi := 0, len(best[k])
			for lo < hi && runs < maxRuns {
				mid := (lo + hi) / 2
				c := cloneStreams(best)
				c[k] = c[k][:mid]
				if try(c) {
					hi = len(best[k])
					if hi > mid {
						hi = mid
					}
				} else {
					lo = mid + 1
				}
			}
			// 3. zero blocks, 4. delete blocks
			for _, mode := range []string{"zero", "delete"} {
				for size := len(best[k]) / 2; size >= 1; size /= 2 {
					for start := 0; start+size <= len(best[k]); {
						cur := best[k]
						if mode == "zero" {
							allz := true
							for _, v := range cur[start : start+size] {
								if v != 0 {
									allz = false
								}
							}
							if allz {
								start += size
								continue
							}
						}
						c := cloneStreams(best)
						if mode == "zero" {
							for i := start; i < start+size; i++ {
								c[k][i] = 0
							}
						} else {
							c[k] = append(append([]uint32(nil), cur[:start]...), cur[start+size:]...)
						}
						if !try(c) {
							start += size
						} else if mode == "zero" {
							start += size
						}
						if runs >= maxRuns || time.Now().After(deadline) {
							break
						}
					}
					if runs >= maxRuns || time.Now().After(deadline) {
						break
					}
				}
			}
			// 5. lower single values
			for i := 0; i < len(best[k]) && runs < maxRuns && !time.Now().After(deadline); i++ {
				v := best[k][i]
				if v <= 1 {
					continue
				}
				for _, nv := range []uint32{1, v / 2, v - 1} {
					if nv >= v || i >= len(best[k]) {
						continue
					}
					c := cloneStreams(best)
					c[k][i] = nv
					if try(c) {
						break
					}
				}
			}
		}
		if countDraws(best) >= before || runs >= maxRuns || time.Now().After(deadline) {
			break
		}
	}
	return best, runs
}

func matchKnown(class string, known []string) bool {
	for _, k := range known {
		if k == "*" {
			return true
		}
		if k == class || (strings.HasSuffix(k, "*") && strings.HasPrefix(class, strings.TrimSuffix(k, "*"))) {
			return true
		}
	}
	return false
}

func TestSim(t *testing.T) {
	debug.SetGCPercent(200)
	scName := os.Getenv("VERIF_SCENARIO")
	if scName == "" {
		t.Skip("VERIF_SCENARIO not set")
	}
	sc := scenarios[scName]
	if sc == nil {
		fmt.Fprintf(os.Stderr, "unknown scenario %q; have %v\n", scName, ScenarioNames())
		os.Exit(2)
	}
	tier := os.Getenv("VERIF_TIER")
	if tier == "" {
		tier = "quick"
	}
	prop := os.Getenv("VERIF_PROPERTY")
	if rf := os.Getenv("VERIF_REPLAY"); rf != "" {
		replay(t, sc, rf)
		return
	}
	seed := uint64(envInt("VERIF_SEED", 1))
	if dr := os.Getenv("VERIF_DIFF_RUN"); dr != "" {
		run := uint64(envInt("VERIF_DIFF_RUN", 0))
		var a, b *runResult
		for ; ; run++ {
			a = runOne(t, sc, rt.NewSearchTape(mixSeed(seed, run)), tier, true)
			b = runOne(t, sc, rt.NewReplayTape(a.Streams), tier, true)
			if a.LogHash != b.LogHash || os.Getenv("VERIF_DIFF_SCAN") == "" || run > uint64(envInt("VERIF_DIFF_SCAN", 0)) {
				break
			}
		}
		fmt.Println("run", run)
		_ = os.WriteFile(os.Getenv("VERIF_DIFF_PREFIX")+"-a.txt", []byte(strings.Join(a.FullLog, "\n")), 0o644)
		_ = os.WriteFile(os.Getenv("VERIF_DIFF_PREFIX")+"-b.txt", []byte(strings.Join(b.FullLog, "\n")), 0o644)
		fmt.Println("hashes", a.LogHash, b.LogHash, a.Outcome, b.Outcome, a.Class, b.Class)
		return
	}
	from := envInt("VERIF_RUN_FROM", 0)
	stride := envInt("VERIF_RUN_STRIDE", 1)
	maxRuns := envInt("VERIF_RUNS", 100)
	budget := time.Duration(envInt("VERIF_BUDGET_S", 3600)) * time.Second
	outPath := os.Getenv("VERIF_OUT")
	replayDir := os.Getenv("VERIF_REPLAY_DIR")
	tree := os.Getenv("VERIF_TREE")
	var known []string
	if k := os.Getenv("VERIF_KNOWN"); k != "" {
		known = strings.Split(k, "\x1f")
	}
	classPrefix := os.Getenv("VERIF_CLASS_PREFIX") // violations outside this prefix (other properties) are only counted
	nontrivialProbe := os.Getenv("VERIF_NONTRIVIAL")
	detCheck := envInt("VERIF_DETCHECK", 0) // re-run every k-th run and compare hashes
	countOnly := map[string]bool{}
	for _, c := range strings.Split(os.Getenv("VERIF_COUNT_ONLY"), "\x1f") {
		if c != "" {
			countOnly[c] = true
		}
	}

	out := &workerOut{Scenario: scName, Outcomes: map[string]int{}, Faults: map[string]int{}, Probes: map[string]int{}, Sites: map[string]int{}, Violations: map[string]*violationOut{}}
	sched := map[string]bool{}
	nontriv := map[string]bool{}
	start := time.Now()
	for i := 0; i < maxRuns && time.Since(start) < budget; i++ {
		run := uint64(from + i*stride)
		tape := rt.NewSearchTape(mixSeed(seed, run))
		r := runOne(t, sc, tape, tier, false)
		out.Runs++
		out.Outcomes[r.Outcome]++
		out.Steps += int64(r.Steps)
		out.SimTimeS += r.SimTime.Seconds()
		for k, v := range r.Faults {
			out.Faults[k] += v
		}
		for k, v := range r.Probes {
			out.Probes[k] += v
		}
		for k, v := range r.Sites {
			out.Sites[k] += v
		}
		out.Unowned += r.Unowned
		if r.Leaked {
			out.Leaked++
		}
		sched[r.SchedHash] = true
		if os.Getenv("VERIF_HASHLIST") != "" {
			out.HashList = append(out.HashList, r.LogHash)
		}
		isNontrivial := nontrivialProbe == ""
		for _, p := range strings.Split(nontrivialProbe, ",") {
			if p != "" && r.Probes[p] > 0 {
				isNontrivial = true
			}
		}
		if isNontrivial {
			nontriv[r.SchedHash] = true
		}
		if len(out.Samples) < 3 && (isNontrivial || i > 20) {
			out.Samples = append(out.Samples, map[string]any{
				"seed": seed, "run": run, "outcome": r.Outcome, "steps": r.Steps, "context_switches": r.Switches,
				"sim_time": r.SimTime.String(), "faults_fired": r.Faults, "probes": r.Probes,
				"draws": countDraws(r.Streams), "cfg_stream": r.Streams["cfg"], "op_stream_len": len(r.Streams["op"]),
				"last_events": lastN(r.Tail, 12),
			})
		}
		if detCheck > 0 && i%detCheck == 0 {
			r2 := runOne(t, sc, rt.NewReplayTape(r.Streams), tier, false)
			if r2.LogHash != r.LogHash {
				out.Nondet = append(out.Nondet, fmt.Sprintf("seed=%d run=%d %s vs %s", seed, run, r.LogHash, r2.LogHash))
			}
		}
		if r.Class == "" {
			continue
		}
		// a violation
		if classPrefix != "" && !strings.HasPrefix(r.Class, classPrefix) && r.Class != "panic" {
			out.Outcomes["other-property-violation:"+r.Class]++
			continue
		}
		if v := out.Violations[r.Class]; v != nil {
			v.Count++
			continue
		}
		v := &violationOut{Class: r.Class, Msg: r.Msg, Count: 1, Seed: seed, Run: run}
		out.Violations[r.Class] = v
		if matchKnown(r.Class, known) {
			v.Known = true
		}
		if countOnly[r.Class] {
			// an earlier worker process of this slot has already minimised and verified this class
			continue
		}
		// minimise and verify
		sb := 45 * time.Second
		mr := 1500
		if v.Known {
			sb, mr = 5*time.Second, 100
		}
		if os.Getenv("VERIF_NOSHRINK") != "" {
			mr = 0
		}
		min, _ := shrink(t, sc, tier, r.Streams, r.Class, sb, mr)
		var hashes []string
		var last *runResult
		for k := 0; k < 3; k++ {
			last = runOne(t, sc, rt.NewReplayTape(min), tier, true)
			hashes = append(hashes, last.Class+"/"+last.LogHash)
		}
		v.Determ = hashes[0] == hashes[1] && hashes[1] == hashes[2] && last.Class == r.Class
		if !v.Determ {
			out.Nondet = append(out.Nondet, fmt.Sprintf("violation %s seed=%d run=%d: %v", r.Class, seed, run, hashes))
		}
		rf := replayFile{Property: prop, Scenario: scName, Tier: tier, Class: last.Class, Msg: last.Msg, Seed: seed, Run: run, Tree: tree,
			LogHash: last.LogHash, SchedHash: last.SchedHash, Steps: last.Steps, SimTime: last.SimTime.String(), VSeq: last.VSeq, VAt: last.VAt.String(),
			Faults: last.Faults, Streams: min, OrigDraws: countDraws(r.Streams), MinDraws: countDraws(min), Tail: lastN(last.FullLog, 80), Stack: last.Stack}
		if last.Class == "" {
			rf.Class, rf.Msg = r.Class, r.Msg
		}
		name := fmt.Sprintf("%s/%s-%s-%d-%d.json", replayDir, prop, sanitize(r.Class), seed, run)
		b, _ := json.MarshalIndent(rf, "", " ")
		if replayDir != "" {
			_ = os.MkdirAll(replayDir, 0o755)
			if err := os.WriteFile(name, b, 0o644); err == nil {
				v.Replay = name
			}
		}
	}
	for h := range sched {
		out.SchedHash = append(out.SchedHash, h)
	}
	for h := range nontriv {
		out.Nontrivial = append(out.Nontrivial, h)
	}
	out.WallS = time.Since(start).Seconds()
	b, _ := json.Marshal(out)
	if outPath != "" {
		if err := os.WriteFile(outPath, b, 0o644); err != nil {
			fmt.Fprintln(os.Stderr, err)
			os.Exit(2)
		}
	} else {
		// human summary
		fmt.Printf("scenario=%s runs=%d outcomes=%v steps=%d sim=%.0fs wall=%.1fs distinct=%d unowned=%d leaked=%d\n", scName, out.Runs, out.Outcomes, out.Steps, out.SimTimeS, out.WallS, len(sched), out.Unowned, out.Leaked)
		fmt.Printf("faults=%v\nprobes=%v\n", out.Faults, out.Probes)
		for _, v := range out.Violations {
			fmt.Printf("violation x%d %s: %s replay=%s det=%v\n", v.Count, v.Class, v.Msg, v.Replay, v.Determ)
		}
		for _, n := range out.Nondet {
			fmt.Println("NONDET", n)
		}
	}
}

func lastN(s []string, n int) []string {
	if len(s) > n {
		return s[len(s)-n:]
	}
	return s
}

func sanitize(s string) string {
	var b strings.Builder
	for _, c := range s {
		if c >= 'a' && c <= 'z' || c >= 'A' && c <= 'Z' || c >= '0' && c <= '9' || c == '-' || c == '_' {
			b.WriteRune(c)
		} else {
			b.WriteByte('_')
		}
	}
	return b.String()
}

func replay(t *testing.T, sc *Scenario, path string) {
	b, err := os.ReadFile(path)
	if err != nil {
		fmt.Fprintln(os.Stderr, err)
		os.Exit(2)
	}
	var rf replayFile
	if err := json.Unmarshal(b, &rf); err != nil {
		fmt.Fprintln(os.Stderr, err)
		os.Exit(2)
	}
	tier := rf.Tier
	// a scenario may classify one history under the property being checked (chainsync-pipeline
	// reports an early roll-backward as C21 or as C43): replay under the recorded property
	if rf.Property != "" {
		os.Setenv("VERIF_PROPERTY", rf.Property)
	}
	r := runOne(t, sc, rt.NewReplayTape(rf.Streams), tier, true)
	if os.Getenv("VERIF_TRACE") != "" {
		for _, l := range r.FullLog {
			fmt.Println(l)
		}
		if r.Stack != "" {
			fmt.Println(r.Stack)
		}
	}
	res := map[string]any{"class": r.Class, "msg": r.Msg, "log_hash": r.LogHash, "expected_class": rf.Class, "expected_log_hash": rf.LogHash,
		"reproduced": r.Class == rf.Class && r.Class != "", "hash_match": r.LogHash == rf.LogHash, "steps": r.Steps}
	jb, _ := json.Marshal(res)
	fmt.Printf("REPLAY-RESULT %s\n", jb)
}
