# source this: selects the repository's own Go toolchain, offline
GOROOT_CAND=/root/go/pkg/mod/golang.org/toolchain@v0.0.1-go1.25.8.linux-amd64
if [ -x "$GOROOT_CAND/bin/go" ]; then
  export VERIF_GO="$GOROOT_CAND/bin/go"
else
  export VERIF_GO="$(command -v go1.26.8 || echo go)"
fi
export GOFLAGS=-mod=mod GOPROXY=off GOSUMDB=off GOTOOLCHAIN=local GONOSUMDB=* GONOSUMCHECK=1
