package sim

import (
	"errors"
	"fmt"
	"strings"
	"time"

	ouroboros "github.com/blinklabs-io/gouroboros"
	"github.com/blinklabs-io/gouroboros/ledger"
	"github.com/blinklabs-io/gouroboros/protocol"
	"github.com/blinklabs-io/gouroboros/protocol/blockfetch"
	"github.com/blinklabs-io/gouroboros/protocol/chainsync"
	pcommon "github.com/blinklabs-io/gouroboros/protocol/common"
	"github.com/blinklabs-io/gouroboros/protocol/leiosnotify"
	"github.com/blinklabs-io/gouroboros/protocol/leiosvotes"
	"github.com/blinklabs-io/gouroboros/protocol/txsubmission"
	rt "github.com/blinklabs-io/gouroboros/verifsimrt"
)

// Scenario ADV-CALLS (C15): a real Connection against a raw peer that completes
// the handshake and then answers the blocking API call under test with a right
// reply, a wrong-kind reply, a surplus reply, malformed bytes, a truncated
// segment, silence or an abrupt close. Then the connection ends and the clock
// runs on: every call must have returned, Close returns, ErrorChan is closed,
// and nothing the connection started is left running.

func init() {
	register(&Scenario{Name: "advcalls", Setup: advCallsSetup})
}

type apiCall struct {
	name  string
	label string // protocol label in samples/spec
	spec  *specProto
	id    uint16
	run   func(c *ouroboros.Connection) error
}

// advResponder plays the remote side of one mini-protocol from the
// specification automaton, with one adversarial deviation per run.
type advResponder struct {
	peer      *rawPeer
	spec      *specProto
	label     string
	id        uint16
	asServer  bool // the raw peer holds the server role (response bit set)
	state     string
	consumed  int // number of incoming messages already processed
	behaviour string
	passive   bool
	deviateAt int // deviate at the n-th reply opportunity
	replies   int
	streamed  int
	// cache of the parsed inbound stream
	seenFrames   int
	pending      []byte
	pendingTried int
	msgs         [][]byte
}

var advBehaviours = []string{"right", "right", "right", "wrong-kind", "surplus", "malformed", "truncated", "silence", "close"}

func (r *advResponder) mySide() int {
	if r.asServer {
		return agServer
	}
	return agClient
}

// step processes newly arrived messages and sends what the behaviour dictates.
func (r *advResponder) step() {
	if r.passive {
		return
	}
	// incremental parse of the inbound stream (it can be many megabytes long)
	for ; r.seenFrames < len(r.peer.Frames); r.seenFrames++ {
		f := r.peer.Frames[r.seenFrames]
		if f.Proto == r.id && f.Response == !r.asServer {
			r.pending = append(r.pending, f.Payload...)
		}
	}
	if len(r.pending) > 0 && len(r.pending) != r.pendingTried {
		var more [][]byte
		more, r.pending, _ = splitMessages(r.pending)
		r.pending = append([]byte(nil), r.pending...)
		r.pendingTried = len(r.pending)
		r.msgs = append(r.msgs, more...)
	}
	ms := r.msgs
	for r.consumed < len(ms) {
		m := ms[r.consumed]
		r.consumed++
		ty, err := msgType(m)
		if err != nil {
			continue
		}
		st := r.spec.States[r.state]
		for _, t := range st.Trans {
			if int(t.Msg) == ty {
				if r.spec == specTxSubmission && ty == 0 {
					// blocking flag is the second array element
					if len(m) > 2 && (m[2] == 0xf5) != (t.Variant == 1) {
						continue
					}
				}
				r.state = t.To
				break
			}
		}
	}
	for !r.passive && r.spec.States[r.state].Agency == r.mySide() {
		st := r.spec.States[r.state]
		if len(st.Trans) == 0 {
			return
		}
		b := "right"
		if r.replies == r.deviateAt {
			b = r.behaviour
		}
		r.replies++
		send := func(t specTrans) {
			_ = r.peer.sendMsg(r.id, r.asServer, sampleBytes(r.label, t.Msg, t.Variant, uint64(r.replies)))
		}
		// prefer leaving self-loops after a few rounds
		pickRight := func() specTrans {
			var nonLoop []specTrans
			for _, t := range st.Trans {
				if t.To != r.state {
					nonLoop = append(nonLoop, t)
				}
			}
			if r.streamed >= 3 && len(nonLoop) > 0 {
				return nonLoop[pick("op", len(nonLoop))]
			}
			return st.Trans[pick("op", len(st.Trans))]
		}
		switch b {
		case "right":
			t := pickRight()
			if t.To == r.state {
				r.streamed++
			}
			if r.spec.States[t.To].Agency == agNone && r.replies < 3 {
				// do not end the protocol as the very first answer if avoidable
				for _, alt := range st.Trans {
					if r.spec.States[alt.To].Agency != agNone {
						t = alt
					}
				}
			}
			send(t)
			r.state = t.To
		case "wrong-kind":
			var bad []specTrans
			for _, t := range r.spec.AllMsgs {
				if _, ok := specPermits(st, t); !ok {
					bad = append(bad, t)
				}
			}
			if len(bad) == 0 {
				bad = r.spec.AllMsgs
			}
			send(bad[pick("op", len(bad))])
			rt.Fault("F11.wrong-kind-reply")
			r.passive = true
		case "surplus":
			t := pickRight()
			send(t)
			send(t)
			rt.Fault("F11.surplus-reply")
			r.state = t.To
			r.passive = true
		case "malformed":
			_ = r.peer.send(r.id, r.asServer, []byte{0x1c, 0xff, 0x00, 0x9f})
			rt.Fault("F11.malformed-bytes")
			r.passive = true
		case "truncated":
			t := pickRight()
			full := encodeFrame(r.id, r.asServer, sampleBytes(r.label, t.Msg, t.Variant, 1))
			cut := 1 + pick("op", len(full)-1)
			_, _ = r.peer.c.Write(full[:cut])
			rt.Fault("F11.truncated-segment")
			r.peer.close()
			r.passive = true
		case "silence":
			rt.Fault("F9.silence")
			r.passive = true
		case "close":
			rt.Fault("F4.abrupt-close")
			r.peer.close()
			r.passive = true
		}
	}
}

func advCallsSetup(s *rt.Sim, tier string) func() {
	schedCfg(s, true)
	s.Cfg.MaxSteps = 80000
	s.Cfg.MaxStall = 30 * time.Second
	s.Cfg.Horizon = 12 * time.Hour
	return func() {
		ncfg := drawNetCfg(false)
		// arm "stalled reader": bounded socket buffer, large outbound payloads, and a peer that
		// stops reading at some byte count (new draws use their own stream, so that the older
		// streams keep their meaning)
		stallArm := chance("cfg.x", 1, 4)
		if stallArm {
			ncfg.BufCap = oneOf("cfg.x", 65536, 8192, 262144)
		}
		pair := NewPair(ncfg)
		kind := weighted("cfg", 3, 3, 1) // NtN client, NtC client, NtN server
		if chance("cfg.x", 1, 8) {
			kind = 3 // NtC server: its chain-sync state machine has neither timeouts nor byte limits
		}
		if kind != 3 && chance("cfg.x", 1, 10) {
			kind = 4 // DMQ client connection (local-message-submission / -notification)
			if chance("cfg.x", 1, 2) {
				kind = 5 // DMQ server connection
			}
		}
		co := connOpts{magic: 42}
		switch kind {
		case 0:
			co.ntn, co.peerSharing, co.keepAlive = true, true, chance("cfg", 1, 2)
		case 2:
			co.ntn, co.server = true, true
		case 3:
			co.server = true
		case 4:
			co.dmq = true
		case 5:
			co.dmq, co.server = true, true
		}
		// application callbacks
		csServed := 0
		csCfg := chainsync.NewConfig(
			chainsync.WithRollForwardFunc(func(chainsync.CallbackContext, uint, any, chainsync.Tip) error { return nil }),
			chainsync.WithRollBackwardFunc(func(chainsync.CallbackContext, pcommon.Point, chainsync.Tip) error { return nil }),
			// server application (kind 3): every RequestNext is answered with one large block
			chainsync.WithFindIntersectFunc(func(ctx chainsync.CallbackContext, pts []pcommon.Point) (pcommon.Point, chainsync.Tip, error) {
				return samplePoint(1), sampleTip(1), nil
			}),
			chainsync.WithRequestNextFunc(func(ctx chainsync.CallbackContext) error {
				n := oneOf("op", 70000, 900000, 1500000, 3000000)
				blk := append([]byte{0x5a, byte(n >> 24), byte(n >> 16), byte(n >> 8), byte(n)}, make([]byte, n)...)
				csServed++
				rt.Log("chain-sync server: RollForward with a block of %d bytes", n)
				return ctx.Server.RollForward(ledger.BlockTypeConway, blk, sampleTip(uint64(csServed)))
			}),
		)
		// block-fetch server application: streams 1-4 copies of the largest fixture block
		streamState := 0 // 0 never asked, 1 sending, 2 all server calls have returned
		bigBlock := fixBlocks()[0]
		for _, fb := range fixBlocks() {
			if len(fb.Data) > len(bigBlock.Data) {
				bigBlock = fb
			}
		}
		bfCfg, _ := blockfetch.NewConfig(
			blockfetch.WithBlockFunc(func(blockfetch.CallbackContext, uint, ledger.Block) error { return nil }),
			blockfetch.WithBatchDoneFunc(func(blockfetch.CallbackContext) error { return nil }),
			blockfetch.WithRequestRangeFunc(func(ctx blockfetch.CallbackContext, start, end pcommon.Point) error {
				if streamState != 0 {
					return nil
				}
				streamState = 1
				srv := ctx.Server
				n := 1 + pick("op", 4)
				go func() {
					defer func() { streamState = 2 }()
					if err := srv.StartBatch(); err != nil {
						return
					}
					for i := 0; i < n; i++ {
						data := bigBlock.Data
						if sz := oneOf("op", 0, 900000, 1500000); sz > 0 {
							// an opaque CBOR byte string: the server does not look inside a block
							data = append([]byte{0x5a, byte(sz >> 24), byte(sz >> 16), byte(sz >> 8), byte(sz)}, make([]byte, sz)...)
						}
						if err := srv.Block(bigBlock.Type, data); err != nil {
							return
						}
					}
					_ = srv.BatchDone()
				}()
				return nil
			}),
		)
		// tx-submission outbound application whose mempool is empty: a blocking request makes it
		// wait, and the only signal the library gives a callback for "the connection is gone"
		// is CallbackContext.DoneChan
		txCallbackBlocked := 0
		txCfg := txsubmission.NewConfig(
			txsubmission.WithRequestTxIdsFunc(func(ctx txsubmission.CallbackContext, blocking bool, ack uint16, req uint16) ([]txsubmission.TxIdAndSize, error) {
				if !blocking {
					return []txsubmission.TxIdAndSize{{TxId: txsubmission.TxId{EraId: 5, TxId: [32]byte{9, 9}}, Size: 100}}, nil
				}
				txCallbackBlocked++
				<-ctx.DoneChan
				return nil, txsubmission.ErrStopServerProcess
			}),
			txsubmission.WithRequestTxsFunc(func(ctx txsubmission.CallbackContext, ids []txsubmission.TxId) ([]txsubmission.TxBody, error) {
				return nil, nil
			}),
		)
		// leios-notify application whose callback fails at its second notification, after a
		// moment in which the next (pipelined) notification can arrive
		lnCalls := 0
		lnCfg := leiosnotify.NewConfig(leiosnotify.WithNotificationFunc(func(ctx leiosnotify.CallbackContext, m protocol.Message) error {
			lnCalls++
			if lnCalls >= 2 {
				sleep(oneOf("op", time.Millisecond, 200*time.Millisecond, 2*time.Second))
				return errors.New("harness: the application cannot use this notification")
			}
			return nil
		}))
		// leios-votes application: one vote per request, one or two requests in flight; the
		// callback fails, asks to stop, or is merely slow at its second vote
		lvCalls := 0
		lvMode := pick("op.lv", 3)
		lvCfg := leiosvotes.NewConfig(leiosvotes.WithRequestNextCount(1), leiosvotes.WithPipelineLimit(1+pick("op.lv", 2)),
			leiosvotes.WithVoteFunc(func(ctx leiosvotes.CallbackContext, v leiosvotes.Vote) error {
				lvCalls++
				if lvCalls >= 2 {
					sleep(oneOf("op.lv", time.Millisecond, 200*time.Millisecond, 2*time.Second))
					switch lvMode {
					case 1:
						return errors.New("harness: the application cannot use this vote")
					case 2:
						return leiosvotes.ErrStopVoteProcess
					}
				}
				return nil
			}))
		opts := append(co.options(pair.A), ouroboros.WithChainSyncConfig(csCfg), ouroboros.WithBlockFetchConfig(bfCfg), ouroboros.WithTxSubmissionConfig(txCfg), ouroboros.WithLeiosNotifyConfig(lnCfg), ouroboros.WithLeiosVotesConfig(lvCfg))
		peer := newRawPeer(pair.B)
		var conn *ouroboros.Connection
		var cErr error
		connRet := false
		go func() {
			conn, cErr = ouroboros.NewConnection(opts...)
			connRet = true
		}()
		if co.server {
			if rawProposeAndAwait(peer, (connOpts{ntn: co.ntn, dmq: co.dmq, magic: 42}).table().m) == 0 {
				return
			}
		} else {
			if rawAcceptHighest(peer, co.table().m, co.magic, false, nil) == 0 {
				return
			}
		}
		for i := 0; i < 600 && !connRet; i++ {
			sleep(100 * time.Millisecond)
		}
		if !connRet || cErr != nil {
			rt.Hit("advcalls.setup-failed")
			return
		}
		watch := watchConn(conn)
		// candidate calls
		var calls []apiCall
		csLabel, csId := "chainsync-ntc", chainsync.ProtocolIdNtC
		if co.ntn {
			csLabel, csId = "chainsync-ntn", chainsync.ProtocolIdNtN
		}
		if kind == 5 {
			// the peer asks for messages with a blocking request; the server's queue is empty, so
			// the request stays unanswered until the connection ends
			calls = append(calls, apiCall{"dmq.server.blocking-request", "keepalive", specKeepAlive, 0x7ffd, func(c *ouroboros.Connection) error {
				if chance("op", 3, 4) {
					_ = peer.sendMsg(15, false, sampleBytes("localmessagenotification", 0, 1, 0))
					rt.Hit("advcalls.dmq-blocking-request-sent")
				}
				return nil
			}})
		}
		if kind == 4 {
			// no conversation at all: the connection is set up, lives for a while and ends; what
			// is judged is that nothing it started outlives it
			calls = append(calls, apiCall{"dmq.idle-connection", "keepalive", specKeepAlive, 0x7ffd, func(c *ouroboros.Connection) error {
				if c.LocalMessageSubmission() == nil || c.LocalMessageNotification() == nil {
					return fmt.Errorf("DMQ protocols missing")
				}
				return nil
			}})
		}
		if kind == 3 {
			calls = append(calls, apiCall{"chainsync.server.bigblock", "chainsync-ntc", specChainSync, chainsync.ProtocolIdNtC, func(c *ouroboros.Connection) error {
				// nothing blocks in the server application (RollForward queues the message); what is
				// judged is that the protocol's tasks end with the connection
				for i := 0; i < 120 && csServed == 0; i++ {
					sleep(time.Second)
				}
				return nil
			}})
		}
		if !co.server && !co.dmq {
			calls = append(calls,
				apiCall{"chainsync.GetCurrentTip", csLabel, specChainSync, csId, func(c *ouroboros.Connection) error { _, e := c.ChainSync().Client.GetCurrentTip(); return e }},
				apiCall{"chainsync.GetAvailableBlockRange", csLabel, specChainSync, csId, func(c *ouroboros.Connection) error {
					_, _, e := c.ChainSync().Client.GetAvailableBlockRange([]pcommon.Point{samplePoint(1)})
					return e
				}},
				apiCall{"chainsync.Sync+Stop", csLabel, specChainSync, csId, func(c *ouroboros.Connection) error {
					if e := c.ChainSync().Client.Sync([]pcommon.Point{samplePoint(1)}); e != nil {
						return e
					}
					sleep(oneOf("op", time.Second, 30*time.Second, 5*time.Minute))
					return c.ChainSync().Client.Stop()
				}},
			)
		}
		switch kind {
		case 0:
			calls = append(calls,
				apiCall{"blockfetch.GetBlock", "blockfetch", specBlockFetch, blockfetch.ProtocolId, func(c *ouroboros.Connection) error {
					// the point of the block the responder serves (samples.go): a right reply succeeds
					_, e := c.BlockFetch().Client.GetBlock(fixBlocks()[1].Point)
					return e
				}},
				apiCall{"blockfetch.GetBlockRange", "blockfetch", specBlockFetch, blockfetch.ProtocolId, func(c *ouroboros.Connection) error {
					return c.BlockFetch().Client.GetBlockRange(samplePoint(3), samplePoint(9))
				}},
				apiCall{"blockfetch.GetBlockRange+Stop", "blockfetch", specBlockFetch, blockfetch.ProtocolId, func(c *ouroboros.Connection) error {
					if e := c.BlockFetch().Client.GetBlockRange(samplePoint(3), samplePoint(9)); e != nil {
						return e
					}
					sleep(oneOf("op", time.Second, 20*time.Second))
					return c.BlockFetch().Client.Stop()
				}},
				apiCall{"leiosnotify.Sync+failing-callback", "leiosnotify", specLeiosNotify, leiosnotify.ProtocolId, func(c *ouroboros.Connection) error {
					if err := c.LeiosNotify().Client.Sync(); err != nil {
						return err
					}
					for i := 0; i < 120 && lnCalls < 2; i++ {
						sleep(time.Second)
					}
					return nil
				}},
				apiCall{"leiosvotes.RequestNext", "leiosvotes", specLeiosVotes, leiosvotes.ProtocolId, func(c *ouroboros.Connection) error {
					votes, err := c.LeiosVotes().Client.RequestNext(1)
					if err == nil && len(votes) != 1 {
						return fmt.Errorf("RequestNext(1) returned %d votes", len(votes))
					}
					if err == nil && chance("op.lv", 1, 2) {
						_, err = c.LeiosVotes().Client.RequestNext(1)
					}
					return err
				}},
				apiCall{"leiosvotes.Sync+Stop", "leiosvotes", specLeiosVotes, leiosvotes.ProtocolId, func(c *ouroboros.Connection) error {
					if err := c.LeiosVotes().Client.Sync(); err != nil {
						return err
					}
					for i := 0; i < 60 && lvCalls < 2; i++ {
						sleep(time.Second)
					}
					if chance("op.lv", 1, 2) {
						return c.LeiosVotes().Client.Stop()
					}
					return nil
				}},
				apiCall{"txsubmission.client.blocking-callback", "txsubmission", specTxSubmission, 4, func(c *ouroboros.Connection) error {
					// the outbound side opens the protocol; the responder then sends requests, and a
					// blocking one parks the application callback on CallbackContext.DoneChan
					c.TxSubmission().Client.Init()
					for i := 0; i < 120 && txCallbackBlocked == 0; i++ {
						sleep(time.Second)
					}
					return nil
				}},
				apiCall{"peersharing.GetPeers", "peersharing", specPeerSharing, 10, func(c *ouroboros.Connection) error {
					if c.PeerSharing() == nil {
						return nil
					}
					_, e := c.PeerSharing().Client.GetPeers(3)
					return e
				}},
			)
		case 1:
			calls = append(calls,
				apiCall{"localstatequery.Acquire+GetCurrentEra+Release", "localstatequery", specLocalStateQuery, 7, func(c *ouroboros.Connection) error {
					q := c.LocalStateQuery().Client
					if e := q.AcquireVolatileTip(); e != nil {
						return e
					}
					if _, e := q.GetCurrentEra(); e != nil {
						return e
					}
					return q.Release()
				}},
				apiCall{"localstatequery.GetSystemStart", "localstatequery", specLocalStateQuery, 7, func(c *ouroboros.Connection) error {
					_, e := c.LocalStateQuery().Client.GetSystemStart()
					return e
				}},
				apiCall{"localstatequery.Acquire(point)", "localstatequery", specLocalStateQuery, 7, func(c *ouroboros.Connection) error {
					p := samplePoint(2)
					return c.LocalStateQuery().Client.Acquire(&p)
				}},
				apiCall{"localtxmonitor.Acquire+HasTx", "localtxmonitor", specLocalTxMonitor, 9, func(c *ouroboros.Connection) error {
					m := c.LocalTxMonitor().Client
					if e := m.Acquire(); e != nil {
						return e
					}
					_, e := m.HasTx([]byte{1, 2, 3})
					return e
				}},
				apiCall{"localtxmonitor.NextTx", "localtxmonitor", specLocalTxMonitor, 9, func(c *ouroboros.Connection) error {
					_, e := c.LocalTxMonitor().Client.NextTx()
					return e
				}},
				apiCall{"localtxmonitor.GetSizes+Release+Stop", "localtxmonitor", specLocalTxMonitor, 9, func(c *ouroboros.Connection) error {
					m := c.LocalTxMonitor().Client
					if _, _, _, e := m.GetSizes(); e != nil {
						return e
					}
					if e := m.Release(); e != nil {
						return e
					}
					return m.Stop()
				}},
				apiCall{"localtxsubmission.SubmitTx", "localtxsubmission", specLocalTxSubmission, 6, func(c *ouroboros.Connection) error {
					return c.LocalTxSubmission().Client.SubmitTx(5, []byte{0x84, 0xa0, 0xa0, 0xf5, 0xf6})
				}},
				apiCall{"localtxsubmission.SubmitTx(large)", "localtxsubmission", specLocalTxSubmission, 6, func(c *ouroboros.Connection) error {
					tx := make([]byte, oneOf("op", 70000, 900000, 1500000, 3000000))
					rt.Log("SubmitTx of %d bytes", len(tx))
					return c.LocalTxSubmission().Client.SubmitTx(5, tx)
				}},
				apiCall{"localtxsubmission.SubmitTx+Stop", "localtxsubmission", specLocalTxSubmission, 6, func(c *ouroboros.Connection) error {
					_ = c.LocalTxSubmission().Client.SubmitTx(5, []byte{0x84, 0xa0, 0xa0, 0xf5, 0xf6})
					return c.LocalTxSubmission().Client.Stop()
				}},
			)
		case 2:
			calls = append(calls,
				apiCall{"txsubmission.RequestTxIds(blocking)", "txsubmission", specTxSubmission, 4, func(c *ouroboros.Connection) error {
					_, e := c.TxSubmission().Server.RequestTxIds(true, 3)
					return e
				}},
				apiCall{"txsubmission.RequestTxIds(non-blocking)+RequestTxs", "txsubmission", specTxSubmission, 4, func(c *ouroboros.Connection) error {
					if _, e := c.TxSubmission().Server.RequestTxIds(false, 3); e != nil {
						return e
					}
					_, e := c.TxSubmission().Server.RequestTxs([]txsubmission.TxId{{EraId: 5, TxId: [32]byte{1, 2, 3}}})
					return e
				}},
				apiCall{"blockfetch.server.stream", "blockfetch", specBlockFetch, blockfetch.ProtocolId, func(c *ouroboros.Connection) error {
					// the "call" is the server application's StartBatch/Block/BatchDone sequence
					for i := 0; i < 120 && streamState == 0; i++ {
						sleep(time.Second)
					}
					for streamState == 1 {
						sleep(time.Second)
					}
					return nil
				}},
			)
		}
		call := calls[pick("op", len(calls))]
		resp := &advResponder{peer: peer, spec: call.spec, label: call.label, id: call.id, asServer: !co.server, state: call.spec.Init,
			behaviour: advBehaviours[pick("op", len(advBehaviours))], deviateAt: pick("op", 3)}
		if kind == 4 || kind == 5 {
			resp.passive = true
		}
		if stallArm {
			if chance("cfg.x", 1, 2) {
				resp.behaviour = "right"
			}
			peer.pauseAfter = peer.nread + int64(oneOf("cfg.x", 0, 1000, 70000, 300000, 1000000))
			rt.Hit("advcalls.stalled-reader-arm")
			rt.Log("stalled-reader arm: socket buffer %d, peer stops reading after %d more bytes", ncfg.BufCap, peer.pauseAfter-peer.nread)
		}
		if co.server && co.ntn {
			// the raw client opens tx-submission
			_ = peer.sendMsg(4, false, sampleBytes("txsubmission", 6, 0, 0))
			resp.state = "Idle"
		}
		stopResp := false
		go func() {
			for !stopResp && !peer.eof {
				resp.step()
				sleep(200 * time.Millisecond)
			}
		}()
		// the calls
		ncalls := 1
		if chance("op", 1, 4) {
			ncalls = 2 // a concurrent second call of the same kind
		}
		type callRec struct {
			returned bool
			err      error
			at       time.Duration
		}
		recs := make([]*callRec, ncalls)
		for i := 0; i < ncalls; i++ {
			rec := &callRec{}
			recs[i] = rec
			go func() {
				rec.err = call.run(conn)
				rec.returned = true
				rec.at = rt.Now()
				rt.Log("call %s returned: %v", call.name, rec.err)
			}()
		}
		// let the conversation run, then end the connection
		sleep(oneOf("op", time.Second, 30*time.Second, 5*time.Minute, 20*time.Minute))
		endMode := pick("op", 3)
		if endMode != 1 && !peer.c.closed {
			peer.close()
		}
		sleep(oneOf("op", time.Millisecond, 5*time.Second, 3*time.Minute))
		closeRet := false
		go func() {
			_ = conn.Close()
			closeRet = true
		}()
		stopResp = true
		sleep(2 * time.Hour)
		if !peer.c.closed {
			peer.close()
		}
		sleep(10 * time.Minute)
		desc := fmt.Sprintf("%s (conn kind %d, %d concurrent), responder behaviour %q at reply %d, end mode %d", call.name, kind, ncalls, resp.behaviour, resp.deviateAt, endMode)
		rt.Hit("advcalls." + call.name)
		rt.Hit("advcalls.behaviour." + resp.behaviour)
		for _, rec := range recs {
			if !rec.returned {
				rt.Violate(fmt.Sprintf("C15/call-hangs/%s/%s", call.name, resp.behaviour), "%s: the call had not returned 2 simulated hours after the connection ended and Close was called", desc)
				return
			}
		}
		if !closeRet {
			rt.Violate("C15/close-hangs/"+call.name, "%s: Connection.Close had not returned after 2 simulated hours", desc)
			return
		}
		if !watch.closed {
			rt.Violate("C15/errorchan-open/"+call.name, "%s: the connection's ErrorChan is still open", desc)
			return
		}
		// a call made after the connection has ended returns as well
		if chance("op", 1, 2) {
			late := &callRec{}
			go func() {
				late.err = call.run(conn)
				late.returned = true
				rt.Log("late call %s returned: %v", call.name, late.err)
			}()
			for i := 0; i < 720 && !late.returned; i++ {
				sleep(10 * time.Second)
			}
			rt.Hit("advcalls.late-call")
			if !late.returned {
				rt.Violate(fmt.Sprintf("C15/late-call-hangs/%s/%s", call.name, resp.behaviour), "%s: the same call made after the connection had ended and Close had returned did not return within 2 simulated hours", desc)
				return
			}
			// helper goroutines of the late call may be stalled by the scheduler (F12, at most MaxStall)
			sleep(10 * time.Minute)
		}
		if live := libTasksAlive(); len(live) > 0 {
			site := live[0].Name
			rt.Violate("C15/task-leak/"+strings.TrimPrefix(site, "repo/"), "%s: %d tasks started by the library are still alive: %s", desc, len(live), fmtTasks(live))
			return
		}
		before := rt.LibSteps()
		sleep(2 * time.Hour)
		if after := rt.LibSteps(); after != before {
			rt.Violate("C15/activity-after-close", "%s: library tasks took %d scheduling steps in the 2 hours after everything had ended (a timer survived)", desc, after-before)
		}
	}
}
