package sim

import (
	"bytes"
	"fmt"
	"time"

	ouroboros "github.com/blinklabs-io/gouroboros"
	"github.com/blinklabs-io/gouroboros/ledger"
	"github.com/blinklabs-io/gouroboros/protocol"
	"github.com/blinklabs-io/gouroboros/protocol/chainsync"
	pcommon "github.com/blinklabs-io/gouroboros/protocol/common"
	rt "github.com/blinklabs-io/gouroboros/verifsimrt"
)

// Scenario CHAINSYNC (C21, C22): a real syncing chain-sync client against a
// real server Connection whose RequestNextFunc is driven by a model chain
// emitting roll-forwards (real blocks of every era), roll-backwards and
// await-replies.

func init() {
	register(&Scenario{Name: "chainsync", Setup: chainSyncSetup})
}

type csOp struct {
	kind  string // "fwd", "back"
	await bool   // preceded by AwaitReply and a delay
	blk   fixBlock
	point pcommon.Point
	tip   pcommon.Tip
}

func chainSyncSetup(s *rt.Sim, tier string) func() {
	schedCfg(s, true)
	s.Cfg.MaxSteps = 150000
	s.Cfg.MaxStall = 200 * time.Millisecond
	// same reasoning as bfStallBudget: full blocks (up to 648 KB) cross a small socket buffer
	// here too, and chain-sync gives up after 10 s without an answer (CanAwait, Intersect)
	s.Cfg.StallWindow = 10 * time.Second
	s.Cfg.StallBudget = 3 * time.Second
	s.Cfg.Horizon = 12 * time.Hour
	return func() {
		ncfg := drawNetCfg(true)
		if ncfg.BufCap > 0 && ncfg.BufCap < 8192 {
			ncfg.BufCap = 8192
		}
		if ncfg.Latency > 20*time.Millisecond {
			ncfg.Latency = 20 * time.Millisecond
		}
		ncfg.Jitter = 0
		pair := NewPair(ncfg)
		ntn := chance("cfg", 1, 2)
		limit := oneOf("cfg", 0, 1, 2, 3, 10, 50, 100, 7)
		effLimit := limit
		if limit == 0 {
			effLimit = chainsync.DefaultPipelineLimit // a configured 0 means "unset"
		}
		blocks := fixBlocks()
		var postByron []fixBlock
		for _, b := range blocks {
			if !b.Byron {
				postByron = append(postByron, b)
			}
		}
		nops := 3 + pick("cfg", 40)
		var hist []csOp
		for i := 0; i < nops; i++ {
			op := csOp{tip: sampleTip(uint64(i))}
			if chance("op", 1, 6) {
				op.kind, op.point = "back", samplePoint(uint64(i))
			} else {
				op.kind = "fwd"
				op.blk = blocks[pick("op", len(blocks))]
				if ntn && op.blk.Byron {
					// the property speaks of Shelley-or-later blocks over node-to-node
					op.blk = postByron[pick("op", len(postByron))]
				}
				if rt.Choose("op.x", 4) == 3 {
					// a real block whose issuer signals another protocol major version
					pv := protoVariantBlocks()
					op.blk = pv[rt.Choose("op.x", len(pv))]
				}
			}
			op.await = chance("op", 1, 7)
			hist = append(hist, op)
		}
		stopAt := -1
		cleanStop := chance("cfg", 1, 3)
		if cleanStop {
			stopAt = pick("cfg", nops)
		}
		useRaw := chance("cfg", 1, 2)
		slow := chance("cfg", 1, 3)
		// F15: Stop is called by another task while the stream flows and a callback is in flight
		stopMid := !cleanStop && chance("cfg", 1, 4)
		stopMidAt := pick("cfg", nops)
		stopMidRet := false
		var cConn, sConn *ouroboros.Connection
		// server application
		next := 0
		// knob (own stream): a node-to-node server application that prepares its roll-forward
		// messages ahead with the exported constructor (this one and the next two) and hands them
		// to the protocol later
		ahead := ntn && rt.Choose("cfg.a", 3) == 2
		prebuilt := map[int]protocol.Message{}
		build := func(j int) {
			if j >= len(hist) || hist[j].kind != "fwd" || prebuilt[j] != nil {
				return
			}
			if eraId, ok := ledger.BlockToBlockHeaderTypeMap[hist[j].blk.Type]; ok {
				if m, err := chainsync.NewMsgRollForwardNtN(eraId, 0, hist[j].blk.Data, hist[j].tip); err == nil {
					prebuilt[j] = m
				}
			}
		}
		sendOp := func(srv *chainsync.Server, op csOp, idx int) error {
			if op.kind == "back" {
				return srv.RollBackward(op.point, op.tip)
			}
			if ahead {
				build(idx)
				build(idx + 1)
				build(idx + 2)
				if m := prebuilt[idx]; m != nil {
					rt.Hit("cs.message-prepared-ahead")
					return srv.ProtocolInstance().SendMessage(m)
				}
			}
			return srv.RollForward(op.blk.Type, op.blk.Data, op.tip)
		}
		exhausted := false
		requestNext := func(ctx chainsync.CallbackContext) error {
			if next >= len(hist) {
				exhausted = true
				return ctx.Server.AwaitReply()
			}
			op := hist[next]
			opIdx := next
			next++
			if op.await {
				if err := ctx.Server.AwaitReply(); err != nil {
					return err
				}
				d := oneOf("op", 10*time.Millisecond, time.Second, 20*time.Second, 100*time.Second)
				srv := ctx.Server
				go func() {
					sleep(d)
					_ = sendOp(srv, op, opIdx)
				}()
				return nil
			}
			return sendOp(ctx.Server, op, opIdx)
		}
		findIntersect := func(ctx chainsync.CallbackContext, pts []pcommon.Point) (pcommon.Point, chainsync.Tip, error) {
			return pts[0], sampleTip(0), nil
		}
		// client application
		type cbRec struct {
			kind  string
			btype uint
			hash  []byte
			raw   []byte
			point pcommon.Point
			tip   pcommon.Tip
		}
		var cbs []cbRec
		maxOutstanding := 0
		reqOnWire := func() int {
			frames, _ := parseFrames(pair.AB.Log)
			id := chainsync.ProtocolIdNtC
			if ntn {
				id = chainsync.ProtocolIdNtN
			}
			ms, _, _ := splitMessages(protoStream(frames, id, false))
			n := 0
			for _, m := range ms {
				if ty, err := msgType(m); err == nil && ty == 0 {
					n++
				}
			}
			return n
		}
		onCallback := func(rec cbRec) error {
			out := reqOnWire() - len(cbs)
			if out > maxOutstanding {
				maxOutstanding = out
			}
			cbs = append(cbs, rec)
			if stopMid && len(cbs)-1 == stopMidAt {
				rt.Fault("F15.stop-while-streaming")
				go func() {
					sleep(oneOf("op", 0, time.Millisecond, 50*time.Millisecond))
					_ = cConn.ChainSync().Client.Stop()
					stopMidRet = true
				}()
				sleep(oneOf("op", 0, 10*time.Millisecond, time.Second))
			}
			if slow && chance("op", 1, 4) {
				sleep(oneOf("op", 10*time.Millisecond, time.Second, 5*time.Second))
			}
			if stopAt >= 0 && len(cbs)-1 >= stopAt {
				return chainsync.ErrStopSyncProcess
			}
			return nil
		}
		var cliOpts []chainsync.ChainSyncOptionFunc
		if useRaw {
			cliOpts = append(cliOpts, chainsync.WithRollForwardRawFunc(func(ctx chainsync.CallbackContext, t uint, raw []byte, tip chainsync.Tip) error {
				return onCallback(cbRec{kind: "fwd", btype: t, raw: append([]byte(nil), raw...), tip: tip})
			}))
		} else {
			cliOpts = append(cliOpts, chainsync.WithRollForwardFunc(func(ctx chainsync.CallbackContext, t uint, data any, tip chainsync.Tip) error {
				rec := cbRec{kind: "fwd", btype: t, tip: tip}
				switch v := data.(type) {
				case ledger.Block:
					rec.hash = v.Hash().Bytes()
				case ledger.BlockHeader:
					rec.hash = v.Hash().Bytes()
				}
				return onCallback(rec)
			}))
		}
		cliOpts = append(cliOpts, chainsync.WithRollBackwardFunc(func(ctx chainsync.CallbackContext, p pcommon.Point, tip chainsync.Tip) error {
			return onCallback(cbRec{kind: "back", point: p, tip: tip})
		}), chainsync.WithPipelineLimit(limit))
		cCfg := chainsync.NewConfig(cliOpts...)
		sCfg := chainsync.NewConfig(chainsync.WithRequestNextFunc(requestNext), chainsync.WithFindIntersectFunc(findIntersect))
		co := connOpts{ntn: ntn, magic: 42, keepAlive: ntn}
		so := connOpts{ntn: ntn, magic: 42, server: true}
		var cErr, sErr error
		cRet, sRet := false, false
		go func() {
			sConn, sErr = ouroboros.NewConnection(append(so.options(pair.B), ouroboros.WithChainSyncConfig(sCfg))...)
			sRet = true
		}()
		go func() {
			cConn, cErr = ouroboros.NewConnection(append(co.options(pair.A), ouroboros.WithChainSyncConfig(cCfg))...)
			cRet = true
		}()
		for i := 0; i < 600 && !(cRet && sRet); i++ {
			sleep(100 * time.Millisecond)
		}
		if !cRet || !sRet || cErr != nil || sErr != nil {
			rt.Hit("cs.setup-failed")
			return
		}
		cw, sw := watchConn(cConn), watchConn(sConn)
		kaStop := false
		if !ntn {
			connKeepAlive(&kaStop, cConn, sConn) // node-to-node runs the real keep-alive protocol
		}
		if err := cConn.ChainSync().Client.Sync([]pcommon.Point{samplePoint(0)}); err != nil {
			if pair.A.Deadline+pair.B.Deadline == 0 {
				rt.Violate("C21/sync-failed", "Sync returned %v (client errors %v, server errors %v)", err, cw.errs, sw.errs)
			}
			return
		}
		expect := len(hist)
		if stopAt >= 0 {
			expect = stopAt + 1
		}
		if stopMid {
			// only this is judged: Stop returns, nothing panics, and what the application
			// saw until then is a prefix of the server's history (requests may be outstanding,
			// so the conversation cannot end cleanly and errors are not judged)
			for i := 0; i < 9000 && !stopMidRet && len(cbs) <= stopMidAt && len(cw.errs) == 0 && len(sw.errs) == 0; i++ {
				sleep(200 * time.Millisecond)
			}
			if len(cbs) > stopMidAt {
				for i := 0; i < 6000 && !stopMidRet; i++ {
					sleep(200 * time.Millisecond)
				}
				if !stopMidRet {
					rt.Violate("C21/stop-hangs", "ntn=%v limit=%d: Client.Stop, called while callback #%d was in flight, had not returned after 20 simulated minutes", ntn, limit, stopMidAt)
					return
				}
				rt.Hit("cs.stop-while-streaming-returned")
			}
			sleep(10 * time.Second)
			for i, cb := range cbs {
				if i >= len(hist) || cb.kind != hist[i].kind || cb.tip.BlockNumber != hist[i].tip.BlockNumber {
					rt.Violate("C21/callback-order", "ntn=%v limit=%d stop-while-streaming: callback #%d is not the server's update #%d", ntn, limit, i, i)
					return
				}
			}
			cConn.Close()
			sConn.Close()
			return
		}
		// run until the expected callbacks were seen (NtC keeps the muxer deadline quiet through its own traffic only)
		for i := 0; i < 6000 && len(cbs) < expect && len(cw.errs) == 0 && len(sw.errs) == 0; i++ {
			sleep(200 * time.Millisecond)
		}
		if pair.A.Deadline+pair.B.Deadline > 0 {
			rt.Hit("cs.inconclusive-read-deadline")
			return
		}
		desc := fmt.Sprintf("ntn=%v limit=%d raw=%v ops=%d stopAt=%d", ntn, limit, useRaw, len(hist), stopAt)
		if len(cw.errs)+len(sw.errs) > 0 {
			rt.Violate("C21/error-in-conforming-sync", "%s: client errors %v, server errors %v after %d callbacks", desc, cw.errs, sw.errs, len(cbs))
			return
		}
		if len(cbs) < expect {
			rt.Violate("C21/sync-stalls", "%s: %d callbacks after 20 simulated minutes, %d server messages expected", desc, len(cbs), expect)
			return
		}
		// let pipelined replies that were already requested drain: requests the
		// sync loop issued may still sit in the send queue, so wait until the
		// request count on the wire has been stable, and fully answered, for 20 s
		if stopAt >= 0 {
			for i, stable := 0, 0; i < 3000 && stable < 100 && len(cbs) < len(hist); i++ {
				sleep(200 * time.Millisecond)
				if reqOnWire() == len(cbs) {
					stable++
				} else {
					stable = 0
				}
			}
		}
		// callback sequence == server sequence
		for i, cb := range cbs {
			if i >= len(hist) {
				rt.Violate("C21/extra-callback", "%s: callback #%d but the server sent only %d updates", desc, i, len(hist))
				return
			}
			op := hist[i]
			if cb.kind != op.kind {
				rt.Violate("C21/callback-order", "%s: callback #%d is %s, the server's update #%d was %s", desc, i, cb.kind, i, op.kind)
				return
			}
			if cb.tip.BlockNumber != op.tip.BlockNumber || !bytes.Equal(cb.tip.Point.Hash, op.tip.Point.Hash) || cb.tip.Point.Slot != op.tip.Point.Slot {
				rt.Violate("C21/callback-tip", "%s: callback #%d carries tip %v, the server sent %v", desc, i, cb.tip, op.tip)
				return
			}
			if op.kind == "back" {
				if cb.point.Slot != op.point.Slot || !bytes.Equal(cb.point.Hash, op.point.Hash) {
					rt.Violate("C21/callback-point", "%s: roll-backward callback #%d has point %v, server sent %v", desc, i, cb.point, op.point)
					return
				}
				continue
			}
			rt.Hit("cs.block-" + op.blk.Era)
			// C22: identity of the block / header
			if cb.btype != op.blk.Type {
				rt.Violate("C22/block-type-changed", "%s: %s block (type %d) arrived with block type %d", desc, op.blk.Era, op.blk.Type, cb.btype)
				return
			}
			if ntn {
				h := cb.hash
				if useRaw {
					hdr, err := ledger.NewBlockHeaderFromCbor(cb.btype, cb.raw)
					if err != nil {
						rt.Violate("C22/header-undecodable", "%s: header bytes of %s block do not decode as type %d: %v", desc, op.blk.Era, cb.btype, err)
						return
					}
					h = hdr.Hash().Bytes()
				}
				if !bytes.Equal(h, op.blk.Hash) {
					rt.Violate("C22/header-hash-differs", "%s: %s block %x arrived as a header with hash %x", desc, op.blk.Era, op.blk.Hash[:8], h[:min(8, len(h))])
					return
				}
			} else {
				if useRaw {
					if !bytes.Equal(cb.raw, op.blk.Data) {
						rt.Violate("C22/block-bytes-differ", "%s: %s block bytes changed in transit (%d vs %d bytes)", desc, op.blk.Era, len(cb.raw), len(op.blk.Data))
						return
					}
				} else if !bytes.Equal(cb.hash, op.blk.Hash) {
					rt.Violate("C22/block-hash-differs", "%s: %s block arrived with another hash", desc, op.blk.Era)
					return
				}
			}
		}
		if maxOutstanding > effLimit {
			rt.Violate("C21/pipeline-limit-exceeded", "%s: %d requests outstanding, effective limit %d", desc, maxOutstanding, effLimit)
			return
		}
		if maxOutstanding > 1 {
			rt.Hit("cs.pipelined")
		}
		// arm (own stream): after a sync that the application cancelled with ErrStopSyncProcess,
		// and once everything requested has been answered, it syncs again on the same client. The
		// server goes on with its history; every remaining update must arrive, in order
		if stopAt >= 0 && len(cbs) < len(hist) && reqOnWire() == len(cbs) && rt.Choose("cfg.x", 2) == 1 {
			rt.Hit("cs.resync-after-cancel")
			stopAt = -1
			already := len(cbs)
			if err := cConn.ChainSync().Client.Sync([]pcommon.Point{samplePoint(0)}); err != nil {
				rt.Violate("C21/resync-failed", "%s: a second Sync after a cancelled one returned %v (client errors %v, server errors %v)", desc, err, cw.errs, sw.errs)
				return
			}
			for i := 0; i < 9000 && len(cbs) < len(hist) && len(cw.errs) == 0 && len(sw.errs) == 0; i++ {
				sleep(200 * time.Millisecond)
			}
			if pair.A.Deadline+pair.B.Deadline > 0 {
				rt.Hit("cs.inconclusive-read-deadline")
				return
			}
			if len(cw.errs)+len(sw.errs) > 0 {
				rt.Violate("C21/error-in-conforming-sync", "%s: after re-syncing: client errors %v, server errors %v after %d callbacks", desc, cw.errs, sw.errs, len(cbs))
				return
			}
			if len(cbs) < len(hist) {
				rt.Violate("C21/sync-stalls-after-resync", "%s: a second Sync after the cancelled one returned nil; %d callbacks had been made before it, %d after 30 more simulated minutes, the server has %d updates", desc, already, len(cbs), len(hist))
				return
			}
			for i, cb := range cbs {
				if i >= len(hist) || cb.kind != hist[i].kind || cb.tip.BlockNumber != hist[i].tip.BlockNumber {
					rt.Violate("C21/callback-order", "%s: after re-syncing, callback #%d is not the server's update #%d", desc, i, i)
					return
				}
			}
		}
		// Stop
		outstandingAtStop := reqOnWire() - len(cbs)
		stopRet := false
		var stopErr error
		var stopTook time.Duration
		go func() {
			t0 := time.Now()
			stopErr = cConn.ChainSync().Client.Stop()
			stopTook = time.Since(t0)
			stopRet = true
		}()
		for i := 0; i < 6000 && !stopRet; i++ {
			sleep(200 * time.Millisecond)
		}
		if !stopRet {
			rt.Violate("C21/stop-hangs", "%s: Client.Stop had not returned after 20 simulated minutes", desc)
			return
		}
		sleep(30 * time.Second)
		if pair.A.Deadline+pair.B.Deadline > 0 {
			rt.Hit("cs.inconclusive-read-deadline")
			return
		}
		if outstandingAtStop == 0 && !exhausted {
			rt.Hit("cs.clean-stop")
			frames, _ := parseFrames(pair.AB.Log)
			id := chainsync.ProtocolIdNtC
			if ntn {
				id = chainsync.ProtocolIdNtN
			}
			ms, _, _ := splitMessages(protoStream(frames, id, false))
			doneSeen := false
			for _, m := range ms {
				if ty, err := msgType(m); err == nil && ty == 7 {
					doneSeen = true
				}
			}
			// Stop waits a bounded time (250 ms) for Done to be written. Only a slow node (F12
			// stalls of the send loop / the muxer's sender, never present in the stall-free arm)
			// can use that time up; then Stop did wait its full bound and gives up legitimately.
			if !doneSeen && s.Cfg.StallPermille > 0 && stopTook >= 250*time.Millisecond {
				rt.Hit("cs.stop-gave-up-after-full-wait")
				cConn.Close()
				sConn.Close()
				return
			}
			if !doneSeen && stopErr == nil && len(cw.errs)+len(sw.errs) == 0 {
				rt.Violate("C21/unclean-stop/done-never-written", "%s: Stop with no request outstanding returned nil, but MsgDone never reached the wire (the server still believes the conversation is open)", desc)
				return
			}
			if !doneSeen || stopErr != nil || len(cw.errs)+len(sw.errs) > 0 {
				rt.Violate("C21/unclean-stop/errors", "%s: Stop with no request outstanding: Done on the wire=%v, Stop error %v, client errors %v, server errors %v", desc, doneSeen, stopErr, cw.errs, sw.errs)
				return
			}
		}
		cConn.Close()
		sConn.Close()
	}
}
