package sim

import (
	"fmt"
	"strings"
	"time"

	"github.com/blinklabs-io/gouroboros/muxer"
	"github.com/blinklabs-io/gouroboros/protocol"
	"github.com/blinklabs-io/gouroboros/protocol/chainsync"
	rt "github.com/blinklabs-io/gouroboros/verifsimrt"
)

// Scenario TIMEOUT (C14): for every (state map, role, state) drive a lock-step
// conversation into the state and let the agency holder move after a delay
// drawn around the state's timeout. Exact simulated time: zero latency, whole
// reads, no stalls.

func init() {
	register(&Scenario{Name: "timeout", Setup: timeoutSetup})
}

type smEdge struct {
	from protocol.State
	tr   protocol.StateTransition
}

// pathTo finds a shortest transition path from init to target in the declared map.
func pathTo(sm protocol.StateMap, init, target protocol.State, minLen int) []smEdge {
	type node struct {
		st   protocol.State
		path []smEdge
	}
	queue := []node{{init, nil}}
	seen := map[string]bool{}
	for len(queue) > 0 {
		n := queue[0]
		queue = queue[1:]
		if n.st == target && len(n.path) >= minLen {
			return n.path
		}
		key := fmt.Sprintf("%s/%d", n.st.Name, len(n.path))
		if seen[key] || len(n.path) > 8 {
			continue
		}
		seen[key] = true
		for _, tr := range sm[n.st].Transitions {
			p := append(append([]smEdge(nil), n.path...), smEdge{n.st, tr})
			queue = append(queue, node{tr.NewState, p})
		}
	}
	return nil
}

func timeoutSetup(s *rt.Sim, tier string) func() {
	s.Cfg.SwitchDen = []int{1, 2, 4, 16}[s.Tape.Choose("cfg", 4)]
	s.Cfg.MaxSteps = 60000
	s.Cfg.Horizon = 12 * time.Hour
	installProbes(s)
	return func() {
		impls := protoImpls()
		impl := impls[pick("cfg", len(impls))]
		sp := impl.Spec
		localRole := oneOf("cfg", protocol.ProtocolRoleClient, protocol.ProtocolRoleServer)
		pair := NewPair(&NetCfg{})
		m := muxer.New(pair.A)
		var merrs []error
		go func() {
			for e := range m.ErrorChan() {
				merrs = append(merrs, e)
				rt.Log("muxer error: %v", e)
			}
		}()
		sm := impl.Map // with the declared timeouts
		init := stateByName(sm, sp.Init)
		// target: any non-terminal state; minLen 0 = initial placement, >0 = (re-)entered
		var cands []protocol.State
		for _, k := range stateKeys(sm) {
			if sm[k].Agency != protocol.AgencyNone {
				cands = append(cands, k)
			}
		}
		target := cands[pick("cfg", len(cands))]
		minLen := 0
		if target == init && chance("cfg", 1, 2) {
			minLen = 1 // come back to the initial state later: then its timer applies
		}
		// knob (own stream): a longer walk than the shortest one, so that the target is entered
		// after several other states have been visited (and dwelt in, below)
		if k := rt.Choose("cfg.z", 4); k > 0 {
			if lp := pathTo(sm, init, target, k+1); lp != nil {
				minLen = k + 1
				rt.Hit("timeout.longer-walk")
			}
		}
		path := pathTo(sm, init, target, minLen)
		if path == nil && target != init {
			rt.Hit("timeout.unreachable-target")
			return
		}
		entry := sm[target]
		T := entry.Timeout
		lo, hi := T, T // timeout may fire from lo, must have fired by hi
		if entry.TimeoutFunc != nil {
			lo, hi = chainsync.MustReplyTimeoutMin, chainsync.MustReplyTimeoutMax
			T = hi
		}
		hasTimeout := (T > 0) && len(path) > 0
		ep := newEndpoint("L:"+impl.Label, m, impl.Id, sm, init, localRole, impl.Mode, fromCborFor(sp))
		peer := newRawPeer(pair.B)
		peerIsResponder := localRole == protocol.ProtocolRoleClient
		peer.keepAlive(m, peerIsResponder)
		// probe: time of the latest local state change
		ep.p.Start()
		m.Start()
		tag := uint32(0)
		move := func(st protocol.State, tr protocol.StateTransition) bool {
			tag++
			msg := msgForTransition(sp, tr, tag)
			if localAgency(sm, st, localRole) {
				return ep.p.SendMessage(msg) == nil
			}
			return peer.sendMsg(impl.Id, peerIsResponder, msgBytes(msg)) == nil
		}
		for _, e := range path {
			// the agency holder of a state on the way may take its time, within the state's
			// limit (0.6 of it): no timeout error may come of that, and the time spent there
			// must not change when the timers of the states after it fire
			if rt.Choose("op.z", 3) == 2 {
				pe := sm[e.from]
				d := 30 * time.Second
				if pe.Timeout > 0 {
					d = pe.Timeout * 6 / 10
				}
				if pe.TimeoutFunc != nil {
					d = chainsync.MustReplyTimeoutMin * 6 / 10
				}
				rt.Hit("timeout.dwell-on-the-way")
				sleep(d)
				for _, err := range ep.errs {
					if strings.Contains(err.Error(), "timeout waiting on transition") {
						rt.Violate("C14/spurious-timeout", "%s %s: on the way to %s the agency holder of state %s moved after %v (0.6 of its limit), yet: %v", impl.Label, roleName(localRole), target.Name, e.from.Name, d, err)
						return
					}
				}
			}
			if !move(e.from, e.tr) {
				rt.Hit("timeout.path-failed")
				return
			}
			sleep(time.Millisecond)
		}
		sleep(time.Millisecond)
		if len(ep.states) == 0 || ep.states[len(ep.states)-1] != target.Name || len(ep.errs) > 0 {
			rt.Violate("C14/could-not-reach-state", "%s %s: path of %d messages did not bring the endpoint to %s (states %v, errs %v)", impl.Label, roleName(localRole), len(path), target.Name, ep.states, ep.errs)
			return
		}
		// states that can be re-entered by their own messages (block-fetch
		// Streaming, the harness never dwells longer than 0.6 T between them):
		// each re-entry must restart the timer, none may leave a stale one behind
		var selfLoops []protocol.StateTransition
		for _, tr := range sm[target].Transitions {
			if tr.NewState == target {
				selfLoops = append(selfLoops, tr)
			}
		}
		if len(selfLoops) > 0 && T > 0 && chance("op", 1, 2) {
			for k := 0; k < 1+pick("op", 3); k++ {
				sleep(T * 6 / 10)
				if !move(target, selfLoops[pick("op", len(selfLoops))]) {
					rt.Hit("timeout.path-failed")
					return
				}
				sleep(time.Millisecond)
				for _, e := range ep.errs {
					if strings.Contains(e.Error(), "timeout waiting on transition") {
						rt.Violate("C14/spurious-timeout", "%s %s state %s (timeout %v) was re-entered by its own message every 0.6 T, yet after %d re-entries: %v", impl.Label, roleName(localRole), target.Name, T, k+1, e)
						return
					}
				}
			}
			rt.Hit("timeout.self-loop-reentry")
		}
		t0 := rt.Now() // within 2 ms of the state entry
		// dwell
		type dwellOpt struct {
			d     time.Duration
			never bool
		}
		opts := []dwellOpt{{0, false}, {T / 2, false}, {T - 10*time.Millisecond, false}, {T + 10*time.Millisecond, false}, {2 * T, false}, {0, true}}
		if entry.TimeoutFunc != nil {
			opts = []dwellOpt{{0, false}, {lo - time.Second, false}, {(lo + hi) / 2, false}, {hi + time.Second, false}, {0, true}}
		}
		if T == 0 {
			opts = []dwellOpt{{0, false}, {3 * time.Hour, false}, {0, true}}
		}
		o := opts[pick("op", len(opts))]
		desc := fmt.Sprintf("%s %s state %s (timeout %v, entered via %d messages) dwell %v never=%v", impl.Label, roleName(localRole), target.Name, T, len(path), o.d, o.never)
		timeoutErr := func() (bool, error) {
			for _, e := range ep.errs {
				if strings.Contains(e.Error(), "timeout waiting on transition") {
					return true, e
				}
			}
			return false, nil
		}
		mustFire := hasTimeout && (o.never || o.d > hi+5*time.Millisecond)
		mustNotFire := !hasTimeout || (!o.never && o.d < lo-5*time.Millisecond)
		rt.Hit(fmt.Sprintf("timeout.%s.%s", impl.Label, target.Name))
		if mustFire {
			rt.Hit("timeout.must-fire")
			sleep(hi - (rt.Now() - t0) + time.Second)
			fired, _ := timeoutErr()
			if !fired {
				rt.Violate("C14/timeout-missing", "%s: %v after entering the state no timeout error was reported (errs %v)", desc, rt.Now()-t0, ep.errs)
				return
			}
			sleep(time.Minute)
			if !ep.done {
				rt.Violate("C14/not-stopped-after-timeout", "%s: timeout reported but the protocol did not stop", desc)
			}
			return
		}
		if o.never {
			// no timeout applies: dwell long, nothing may fire
			sleep(3 * time.Hour)
			if fired, e := timeoutErr(); fired {
				rt.Violate("C14/spurious-timeout", "%s: %v", desc, e)
			}
			return
		}
		// the agency holder moves after d
		sleep(o.d - (rt.Now() - t0))
		if fired, e := timeoutErr(); fired {
			if mustNotFire {
				rt.Violate("C14/spurious-timeout", "%s: timeout reported %v after entering the state: %v", desc, rt.Now()-t0, e)
			}
			return
		}
		trs := sm[target].Transitions
		tr := trs[pick("op", len(trs))]
		move(target, tr)
		sleep(500 * time.Millisecond)
		if fired, e := timeoutErr(); fired && mustNotFire {
			rt.Violate("C14/spurious-timeout", "%s: the agency holder moved %v after the state was entered, yet: %v", desc, o.d, e)
			return
		}
		if mustNotFire {
			rt.Hit("timeout.must-not-fire")
			if len(ep.errs) > 0 {
				rt.Violate("C14/error-in-conforming-conversation", "%s: %v", desc, ep.errs)
			}
		}
		peer.close()
		ep.p.Stop()
		m.Stop()
	}
}
