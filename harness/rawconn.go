package sim

import (
	"github.com/blinklabs-io/gouroboros/muxer"
	"sort"
	"strings"
	"time"

	ouroboros "github.com/blinklabs-io/gouroboros"
	"github.com/blinklabs-io/gouroboros/cbor"
	"github.com/blinklabs-io/gouroboros/protocol"
	"github.com/blinklabs-io/gouroboros/protocol/handshake"
	rt "github.com/blinklabs-io/gouroboros/verifsimrt"
)

// Helpers for scenarios that put a real ouroboros.Connection against a raw peer.

// rawAcceptHighest plays a cooperative responder: waits for ProposeVersions and
// accepts the highest proposed version with well-formed data carrying `magic`.
// It returns the accepted version (0 if no proposal arrived).
func rawAcceptHighest(peer *rawPeer, proposed protocol.ProtocolVersionMap, magic uint32, duplex bool, pick_ func(ks []uint16) uint16) uint16 {
	for i := 0; i < 600; i++ {
		if n, err := cborItemLen(peer.stream(0, false)); err == nil && n > 0 {
			break
		}
		if peer.eof {
			return 0
		}
		sleep(50 * time.Millisecond)
	}
	ks := versionKeys(proposed)
	if len(ks) == 0 {
		return 0
	}
	v := ks[len(ks)-1]
	if pick_ != nil {
		v = pick_(ks)
	}
	var data []byte
	switch specShape(v) {
	case shapeNtCOld:
		data = cborUint(nil, 0, uint64(magic))
	case shapeNtCNew:
		data = append(append([]byte{0x82}, cborUint(nil, 0, uint64(magic))...), 0xf4)
	default:
		data = encodeNtNData(v, magic, duplex)
	}
	msg := append([]byte{0x83, 0x01}, cborUint(nil, 0, uint64(v))...)
	msg = append(msg, data...)
	if err := peer.send(0, true, msg); err != nil {
		return 0
	}
	return v
}

// encodeNtNData encodes NtN version data through the library's own version
// table (pure data), so that field conventions match.
func encodeNtNData(v uint16, magic uint32, duplex bool) []byte {
	// on the wire the flag means "initiator only": true for a non-duplex peer
	vm := protocol.GetProtocolVersionMap(protocol.ProtocolModeNodeToNode, magic, !duplex, true, false)
	d, ok := vm[v]
	if !ok {
		vm = protocol.GetProtocolVersionMapDMQNtN(magic, !duplex, true, false)
		d = vm[v]
	}
	b, err := cbor.Encode(d)
	if err != nil {
		panic(err)
	}
	return b
}

// rawProposeAndAwait plays a cooperative initiator towards a real server
// Connection: proposes the table and waits for the reply. Returns the accepted
// version (0 on refusal/close).
func rawProposeAndAwait(peer *rawPeer, table protocol.ProtocolVersionMap) uint16 {
	m := handshake.NewMsgProposeVersions(table)
	b, err := cbor.Encode(m)
	if err != nil {
		panic(err)
	}
	if err := peer.send(0, false, b); err != nil {
		return 0
	}
	for i := 0; i < 1200; i++ {
		st := peer.stream(0, true)
		if n, err := cborItemLen(st); err == nil && n > 0 {
			ty, _ := msgType(st[:n])
			if ty != 1 {
				return 0
			}
			var arr []cbor.RawMessage
			if _, err := cbor.Decode(st[:n], &arr); err != nil || len(arr) < 2 {
				return 0
			}
			var v uint16
			if _, err := cbor.Decode(arr[1], &v); err != nil {
				return 0
			}
			return v
		}
		if peer.eof {
			return 0
		}
		sleep(50 * time.Millisecond)
	}
	return 0
}

// connWatch drains a Connection's error channel and records its closure.
type connWatch struct {
	errs   []error
	closed bool
}

func watchConn(c *ouroboros.Connection) *connWatch {
	w := &connWatch{}
	go func() {
		for e := range c.ErrorChan() {
			w.errs = append(w.errs, e)
			rt.Log("connection error: %v", e)
		}
		w.closed = true
		rt.Log("connection ErrorChan closed")
	}()
	return w
}

// keepAliveTimedOut reports whether a watched connection ended because its own
// keep-alive exchange timed out. With application callbacks that dwell for
// seconds the muxer (one bounded queue per protocol, one reader) delivers the
// keep-alive response late; the connection then ends for a reason that is not
// the scenario's subject, and the run is inconclusive (as with an expired
// read deadline).
func keepAliveTimedOut(ws ...*connWatch) bool {
	for _, w := range ws {
		for _, e := range w.errs {
			if strings.Contains(e.Error(), "keep-alive: timeout") {
				rt.Hit("inconclusive.keep-alive-timeout")
				return true
			}
		}
	}
	return false
}

func sortedU16(xs []uint16) []uint16 {
	out := append([]uint16(nil), xs...)
	sort.Slice(out, func(i, j int) bool { return out[i] < out[j] })
	return out
}

// connKeepAlive keeps the 120 s read deadline of two connected real endpoints
// quiet, as a live peer's keep-alive protocol would on a node-to-node
// connection: one tiny frame every 40 s in each direction on a protocol id of
// its own. Without it a conversation that stalls (the outcome some oracles
// exist to report) would end in "read deadline expired" and count as
// inconclusive. *stop ends the traffic.
func connKeepAlive(stop *bool, client, server *ouroboros.Connection) {
	cs, cr, cd := client.Muxer().RegisterProtocol(0x7001, muxer.ProtocolRoleInitiator)
	ss, sr, sd := server.Muxer().RegisterProtocol(0x7001, muxer.ProtocolRoleResponder)
	if cs == nil || ss == nil {
		return
	}
	for _, rc := range []chan *muxer.Segment{cr, sr} {
		rc := rc
		go func() {
			for range rc {
			}
		}()
	}
	pump := func(ch chan *muxer.Segment, done chan bool, resp bool) {
		for !*stop {
			select {
			case ch <- muxer.NewSegment(0x7001, []byte{0}, resp):
			case <-done:
				return
			}
			sleep(40 * time.Second)
		}
	}
	go pump(cs, cd, false)
	go pump(ss, sd, true)
}
