//verif:noinstr

package sim

import (
	"encoding/hex"
	"net"
	"os"
	"strings"
	"sync"

	"github.com/blinklabs-io/gouroboros/cbor"
	"github.com/blinklabs-io/gouroboros/protocol"
	"github.com/blinklabs-io/gouroboros/protocol/blockfetch"
	"github.com/blinklabs-io/gouroboros/protocol/chainsync"
	pcommon "github.com/blinklabs-io/gouroboros/protocol/common"
	"github.com/blinklabs-io/gouroboros/protocol/handshake"
	"github.com/blinklabs-io/gouroboros/protocol/keepalive"
	"github.com/blinklabs-io/gouroboros/protocol/leiosfetch"
	"github.com/blinklabs-io/gouroboros/protocol/leiosnotify"
	"github.com/blinklabs-io/gouroboros/protocol/leiosvotes"
	"github.com/blinklabs-io/gouroboros/protocol/localmessagenotification"
	"github.com/blinklabs-io/gouroboros/protocol/localmessagesubmission"
	"github.com/blinklabs-io/gouroboros/protocol/localstatequery"
	"github.com/blinklabs-io/gouroboros/protocol/localtxmonitor"
	"github.com/blinklabs-io/gouroboros/protocol/localtxsubmission"
	"github.com/blinklabs-io/gouroboros/protocol/peersharing"
	"github.com/blinklabs-io/gouroboros/protocol/txsubmission"
)

// Well-formed sample messages for every wire tag of the ten
// network-specification protocols, built with the library's exported
// constructors (pure code) or taken from the repository's fixtures.

func repoDir() string {
	if d := os.Getenv("VERIF_REPO"); d != "" {
		return d
	}
	return "/repo"
}

var fixtureCache sync.Map

func fixtureHex(rel string) []byte {
	if v, ok := fixtureCache.Load(rel); ok {
		return v.([]byte)
	}
	b, err := os.ReadFile(repoDir() + "/" + rel)
	if err != nil {
		panic("harness: missing fixture " + rel + ": " + err.Error())
	}
	d, err := hex.DecodeString(strings.TrimSpace(string(b)))
	if err != nil {
		panic("harness: bad fixture " + rel + ": " + err.Error())
	}
	fixtureCache.Store(rel, d)
	return d
}

func samplePoint(n uint64) pcommon.Point {
	h := make([]byte, 32)
	for i := range h {
		h[i] = byte(n) + byte(i)
	}
	return pcommon.NewPoint(1000+n, h)
}

func sampleTip(n uint64) pcommon.Tip {
	return pcommon.Tip{Point: samplePoint(n + 50), BlockNumber: 500 + n}
}

// sampleBytes returns the encoded sample message for (protocol label, tag, variant).
func sampleBytes(label string, typ uint8, variant int, n uint64) []byte {
	m := sampleMsg(label, typ, variant, n)
	if m == nil {
		return nil
	}
	if b := m.Cbor(); b != nil {
		return b
	}
	b, err := cbor.Encode(m)
	if err != nil {
		panic("harness: cannot encode sample: " + err.Error())
	}
	return b
}

func sampleMsg(label string, typ uint8, variant int, n uint64) protocol.Message {
	switch {
	case strings.HasPrefix(label, "handshake"):
		vm := protocol.GetProtocolVersionMap(protocol.ProtocolModeNodeToNode, 764824073, protocol.DiffusionModeInitiatorOnly, false, false)
		if label == "handshake-ntc" {
			vm = protocol.GetProtocolVersionMap(protocol.ProtocolModeNodeToClient, 764824073, protocol.DiffusionModeInitiatorOnly, false, false)
		}
		switch typ {
		case 0:
			return handshake.NewMsgProposeVersions(vm)
		case 1:
			var best uint16
			for v := range vm {
				if v > best {
					best = v
				}
			}
			return handshake.NewMsgAcceptVersion(best, vm[best])
		case 2:
			return handshake.NewMsgRefuse([]any{uint64(handshake.RefuseReasonVersionMismatch), []uint16{1, 2}})
		case 3:
			return handshake.NewMsgQueryReply(vm)
		}
	case strings.HasPrefix(label, "chainsync"):
		switch typ {
		case 0:
			return chainsync.NewMsgRequestNext()
		case 1:
			return chainsync.NewMsgAwaitReply()
		case 2:
			f := "protocol/chainsync/testdata/rollforward_ntn_shelley_block_testnet_02b1c561715da9e540411123a6135ee319b02f60b9a11a603d3305556c04329f.hex"
			if label == "chainsync-ntc" {
				f = "protocol/chainsync/testdata/rollforward_ntc_shelley_block_testnet_02b1c561715da9e540411123a6135ee319b02f60b9a11a603d3305556c04329f.hex"
			}
			return &rawMsg{typ: 2, data: fixtureHex(f)}
		case 3:
			return chainsync.NewMsgRollBackward(samplePoint(n), sampleTip(n))
		case 4:
			return chainsync.NewMsgFindIntersect([]pcommon.Point{samplePoint(n), samplePoint(n + 1)})
		case 5:
			return chainsync.NewMsgIntersectFound(samplePoint(n), sampleTip(n))
		case 6:
			return chainsync.NewMsgIntersectNotFound(sampleTip(n))
		case 7:
			return chainsync.NewMsgDone()
		}
	case label == "blockfetch":
		switch typ {
		case 0:
			return blockfetch.NewMsgRequestRange(samplePoint(n), samplePoint(n+3))
		case 1:
			return blockfetch.NewMsgClientDone()
		case 2:
			return blockfetch.NewMsgStartBatch()
		case 3:
			return blockfetch.NewMsgNoBlocks()
		case 4:
			wb, _ := cbor.Encode([]any{uint(2), cbor.RawMessage(fixtureHex("internal/testdata/shelley_block.hex"))})
			return blockfetch.NewMsgBlock(wb)
		case 5:
			return blockfetch.NewMsgBatchDone()
		}
	case label == "txsubmission":
		switch typ {
		case 0:
			return txsubmission.NewMsgRequestTxIds(variant == 1, uint16(n%3), uint16(1+n%5))
		case 1:
			return txsubmission.NewMsgReplyTxIds([]txsubmission.TxIdAndSize{{TxId: txsubmission.TxId{EraId: 5, TxId: [32]byte{byte(n), 2, 3}}, Size: 200}})
		case 2:
			return txsubmission.NewMsgRequestTxs([]txsubmission.TxId{{EraId: 5, TxId: [32]byte{byte(n), 2, 3}}})
		case 3:
			return txsubmission.NewMsgReplyTxs([]txsubmission.TxBody{{EraId: 5, TxBody: []byte{0x84, 0xa0, 0xa0, 0xf5, 0xf6}}})
		case 4:
			return txsubmission.NewMsgDone()
		case 6:
			return txsubmission.NewMsgInit()
		}
	case label == "keepalive":
		switch typ {
		case 0:
			return keepalive.NewMsgKeepAlive(uint16(n))
		case 1:
			return keepalive.NewMsgKeepAliveResponse(uint16(n))
		case 2:
			return keepalive.NewMsgDone()
		}
	case label == "localtxsubmission":
		switch typ {
		case 0:
			return localtxsubmission.NewMsgSubmitTx(5, []byte{0x84, 0xa0, 0xa0, 0xf5, 0xf6})
		case 1:
			return localtxsubmission.NewMsgAcceptTx()
		case 2:
			return localtxsubmission.NewMsgRejectTx([]byte{0x81, 0x02})
		case 3:
			return localtxsubmission.NewMsgDone()
		}
	case label == "localstatequery":
		switch typ {
		case 0:
			return localstatequery.NewMsgAcquire(samplePoint(n))
		case 1:
			return localstatequery.NewMsgAcquired()
		case 2:
			return localstatequery.NewMsgFailure(1)
		case 3:
			return localstatequery.NewMsgQuery([]any{uint(1)})
		case 4:
			return localstatequery.NewMsgResult([]byte{0x82, 0x01, 0x02})
		case 5:
			return localstatequery.NewMsgRelease()
		case 6:
			return localstatequery.NewMsgReAcquire(samplePoint(n))
		case 7:
			return localstatequery.NewMsgDone()
		case 8:
			return localstatequery.NewMsgAcquireVolatileTip()
		case 9:
			return localstatequery.NewMsgReAcquireVolatileTip()
		case 10:
			return localstatequery.NewMsgAcquireImmutableTip()
		case 11:
			return localstatequery.NewMsgReAcquireImmutableTip()
		}
	case label == "localtxmonitor":
		switch typ {
		case 0:
			return localtxmonitor.NewMsgDone()
		case 1:
			return localtxmonitor.NewMsgAcquire()
		case 2:
			return localtxmonitor.NewMsgAcquired(1000 + n)
		case 3:
			return localtxmonitor.NewMsgRelease()
		case 5:
			return localtxmonitor.NewMsgNextTx()
		case 6:
			return localtxmonitor.NewMsgReplyNextTx(5, []byte{0x84, 0xa0, 0xa0, 0xf5, 0xf6})
		case 7:
			return localtxmonitor.NewMsgHasTx([]byte{1, 2, 3, byte(n)})
		case 8:
			return localtxmonitor.NewMsgReplyHasTx(n%2 == 0)
		case 9:
			return localtxmonitor.NewMsgGetSizes()
		case 10:
			return localtxmonitor.NewMsgReplyGetSizes(1000, uint32(n), 3)
		}
	case label == "leiosnotify":
		switch typ {
		case 0:
			return leiosnotify.NewMsgNotificationRequestNext()
		case 2:
			return leiosnotify.NewMsgBlockOffer(samplePoint(n), 1000+n)
		case 5:
			return leiosnotify.NewMsgDone()
		}
	case label == "leiosvotes":
		switch typ {
		case 0:
			return leiosvotes.NewMsgVotesRequestNext(1)
		case 1:
			return leiosvotes.NewMsgVote(leiosvotes.Vote{SlotNo: 500 + n, EndorserBlockHash: [32]byte{7, byte(n)}, VoterId: n, VoteSignature: append(make([]byte, 47), byte(n))})
		case 2:
			return leiosvotes.NewMsgDone()
		}
	case label == "leiosfetch":
		switch typ {
		case 0:
			return leiosfetch.NewMsgBlockRequest(samplePoint(n))
		case 100:
			return leiosfetch.NewMsgNoBlock()
		}
	case label == "localmessagesubmission":
		switch typ {
		case 1:
			return localmessagesubmission.NewMsgAcceptMessage()
		}
	case label == "localmessagenotification":
		switch typ {
		case 0:
			return localmessagenotification.NewMsgRequestMessages(variant == 1)
		case 1:
			return localmessagenotification.NewMsgReplyMessagesNonBlocking(nil, false)
		}
	case label == "peersharing":
		switch typ {
		case 0:
			return peersharing.NewMsgShareRequest(uint8(1 + n%5))
		case 1:
			return peersharing.NewMsgSharePeers([]peersharing.PeerAddress{{IP: net.IPv4(10, 0, 0, byte(n)), Port: 3001}})
		case 2:
			return peersharing.NewMsgDone()
		}
	}
	return nil
}
