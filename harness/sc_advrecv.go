package sim

import (
	"fmt"
	"strings"
	"time"

	"github.com/blinklabs-io/gouroboros/cbor"
	"github.com/blinklabs-io/gouroboros/muxer"
	"github.com/blinklabs-io/gouroboros/protocol"
	rt "github.com/blinklabs-io/gouroboros/verifsimrt"
)

// Scenario ADV-RECV (C11): one real engine per (state map, role) against a raw
// peer that sends permitted, ill-timed, wrong-state and unknown messages. The
// oracle is parameterised by the repository's state-map DATA (the property is
// relative to the declared state machine), never by the engine's logic.

func init() {
	register(&Scenario{Name: "advrecv", Setup: advRecvSetup})
}

// smStep evaluates the declared state machine: the successor of state st on msg.
func smStep(sm protocol.StateMap, st protocol.State, msg protocol.Message) (protocol.State, bool) {
	for _, tr := range sm[st].Transitions {
		if tr.MsgType != msg.Type() {
			continue
		}
		if tr.MatchFunc != nil && !safeMatch(tr.MatchFunc, msg) {
			continue
		}
		return tr.NewState, true
	}
	return protocol.State{}, false
}

// safeMatch evaluates a declared MatchFunc; a message of another Go type than
// the function expects (an opaque harness message with that wire tag) does not match.
func safeMatch(f protocol.StateTransitionMatchFunc, msg protocol.Message) (ok bool) {
	defer func() {
		if recover() != nil {
			ok = false
		}
	}()
	return f(nil, msg)
}

func peerAgency(sm protocol.StateMap, st protocol.State, localRole protocol.ProtocolRole) bool {
	a := sm[st].Agency
	return (a == protocol.AgencyClient && localRole == protocol.ProtocolRoleServer) || (a == protocol.AgencyServer && localRole == protocol.ProtocolRoleClient)
}

func localAgency(sm protocol.StateMap, st protocol.State, localRole protocol.ProtocolRole) bool {
	a := sm[st].Agency
	return (a == protocol.AgencyClient && localRole == protocol.ProtocolRoleClient) || (a == protocol.AgencyServer && localRole == protocol.ProtocolRoleServer)
}

// msgForTransition builds a message that satisfies a declared transition.
func msgForTransition(sp *specProto, tr protocol.StateTransition, tag uint32) protocol.Message {
	for v := 0; v < 2; v++ {
		m := mkMsg(sp, specTrans{Msg: tr.MsgType, Variant: v}, tag, 12+int(tag%40))
		if tr.MatchFunc == nil || safeMatch(tr.MatchFunc, m) {
			return m
		}
	}
	return mkMsg(sp, specTrans{Msg: tr.MsgType}, tag, 12)
}

func msgBytes(m protocol.Message) []byte {
	if b := m.Cbor(); b != nil {
		return b
	}
	b, err := cbor.Encode(m)
	if err != nil {
		panic("harness: cannot encode message: " + err.Error())
	}
	return b
}

func advRecvSetup(s *rt.Sim, tier string) func() {
	schedCfg(s, true)
	s.Cfg.MaxSteps = 30000
	s.Cfg.MaxStall = 30 * time.Second
	s.Cfg.Horizon = 3 * time.Hour
	installProbes(s)
	return func() {
		impls := protoImpls()
		impl := impls[pick("cfg", len(impls))]
		sp := impl.Spec
		localRole := oneOf("cfg", protocol.ProtocolRoleClient, protocol.ProtocolRoleServer)
		ncfg := drawNetCfg(false)
		pair := NewPair(ncfg)
		m := muxer.New(pair.A)
		var merrs []error
		go func() {
			for e := range m.ErrorChan() {
				merrs = append(merrs, e)
				rt.Log("muxer error: %v", e)
			}
		}()
		sm := stripTimeouts(impl.Map)
		init := stateByName(sm, sp.Init)
		ep := newEndpoint("L:"+impl.Label, m, impl.Id, sm, init, localRole, impl.Mode, fromCborFor(sp))
		peer := newRawPeer(pair.B)
		// direction bit the peer uses: the peer is the opposite role
		peerIsResponder := localRole == protocol.ProtocolRoleClient
		peer.keepAlive(m, peerIsResponder)
		ms := init // online model state (declared state machine)
		var localSent []protocol.Message
		tag := uint32(100)
		appTalkative := oneOf("cfg", 3, 4, 1) // out of 4: probability that the local app moves when it may
		violated := false
		localMoves := func() {
			for localAgency(sm, ms, localRole) && !violated {
				trs := sm[ms].Transitions
				if len(trs) == 0 || pick("op", 4) >= appTalkative {
					return
				}
				tr := trs[pick("op", len(trs))]
				tag++
				msg := msgForTransition(sp, tr, tag)
				if err := ep.p.SendMessage(msg); err != nil {
					return
				}
				localSent = append(localSent, msg)
				ms = tr.NewState
			}
		}
		ep.onMsg = func(msg protocol.Message) error {
			if len(ep.errSeq) > 0 && ep.handled[len(ep.handled)-1].Seq > ep.errSeq[0] {
				violated = true
				rt.Violate("C11/handler-after-error", "%s %s: handler invoked for message type %d after the application had received the protocol's first error (%v)", impl.Label, roleName(localRole), msg.Type(), ep.errs[0])
				return nil
			}
			if !peerAgency(sm, ms, localRole) {
				violated = true
				rt.Violate("C11/handled-without-peer-agency", "%s %s: message type %d handed to the application in state %s where the peer does not hold agency", impl.Label, roleName(localRole), msg.Type(), ms)
				return nil
			}
			next, ok := smStep(sm, ms, msg)
			if !ok {
				violated = true
				rt.Violate("C11/handled-unpermitted-message", "%s %s: message type %d handed to the application in state %s, which does not permit it", impl.Label, roleName(localRole), msg.Type(), ms)
				return nil
			}
			ms = next
			rt.Hit("advrecv.handled")
			if chance("op", 1, 6) {
				sleep(oneOf("op", time.Millisecond, time.Second, 20*time.Second))
			}
			localMoves()
			return nil
		}
		ep.p.Start()
		m.Start()
		localMoves() // the local side may hold agency initially
		// the adversarial peer
		var peerSent []protocol.Message
		garbage := false
		n := 1 + pick("op", 12)
		// a patient peer waits for its turn and conforms until message number
		// offenceAt, so that offences also land deep inside a conversation
		patient := chance("cfg", 2, 3)
		offenceAt := pick("cfg", 12)
		for i := 0; i < n; i++ {
			var msg protocol.Message
			tag++
			if patient {
				for w := 0; w < 50 && !peerAgency(sm, ms, localRole) && !violated && len(ep.errs) == 0; w++ {
					sleep(100 * time.Millisecond)
				}
			}
			trs := sm[ms].Transitions
			switch k := pick("op", 8); {
			case patient && i != offenceAt && peerAgency(sm, ms, localRole) && len(trs) > 0:
				msg = msgForTransition(sp, trs[pick("op", len(trs))], tag)
				rt.Hit("advrecv.patient-conforming")
			case k <= 3 && peerAgency(sm, ms, localRole) && len(trs) > 0:
				msg = msgForTransition(sp, trs[pick("op", len(trs))], tag)
			case k <= 3 && localAgency(sm, ms, localRole) && len(trs) > 0:
				// out of turn: a message the LOCAL side could send in this state
				msg = msgForTransition(sp, trs[pick("op", len(trs))], tag)
				rt.Hit("advrecv.out-of-turn-local-type")
			case k <= 5:
				t := sp.AllMsgs[pick("op", len(sp.AllMsgs))]
				msg = mkMsg(sp, t, tag, 12)
			case k == 6:
				msg = mkRaw(uint8(40+pick("op", 50)), tag, 12)
			default:
				// a message valid in some other state of the protocol
				ks := stateKeys(sm)
				st := ks[pick("op", len(ks))]
				if len(sm[st].Transitions) > 0 {
					msg = msgForTransition(sp, sm[st].Transitions[pick("op", len(sm[st].Transitions))], tag)
				} else {
					msg = mkMsg(sp, specTrans{Msg: uint8(pick("op", 12))}, tag, 12)
				}
			}
			if i > 0 && pick("op", 10) == 9 {
				// malformed bytes instead of a message: the reader fails while
				// earlier, valid messages may still be queued
				garbage = true
				rt.Hit("advrecv.garbage-after-valid")
				_ = peer.send(impl.Id, peerIsResponder, []byte{0x1c, 0xff, 0x00})
				break
			}
			peerSent = append(peerSent, msg)
			if err := peer.sendMsg(impl.Id, peerIsResponder, msgBytes(msg)); err != nil {
				break
			}
			if chance("op", 1, 2) {
				sleep(oneOf("op", time.Millisecond, 100*time.Millisecond, 2*time.Second, 45*time.Second))
			}
		}
		// wait for quiescence: nothing handled or reported for 10 simulated minutes
		for quiet, last := 0, -1; quiet < 10; {
			sleep(time.Minute)
			cur := len(ep.handled)*1000 + len(ep.errs)
			if cur == last {
				quiet++
			} else {
				quiet, last = 0, cur
			}
		}
		if violated {
			return
		}
		if pair.A.Deadline > 0 {
			rt.Hit("advrecv.inconclusive-read-deadline")
			return
		}
		// offline: the deterministic merge of peer messages and local sends
		st := init
		i, j := 0, 0
		expectHandled := 0
		expectError := false
		for {
			if peerAgency(sm, st, localRole) {
				if i >= len(peerSent) {
					break
				}
				nx, ok := smStep(sm, st, peerSent[i])
				if !ok {
					expectError = true
					break
				}
				st = nx
				i++
				expectHandled++
			} else if localAgency(sm, st, localRole) {
				if j >= len(localSent) {
					break
				}
				nx, ok := smStep(sm, st, localSent[j])
				if !ok {
					break // cannot happen: the app only sends declared transitions
				}
				st = nx
				j++
			} else {
				break // terminal
			}
		}
		desc := fmt.Sprintf("%s %s peer=[%s] local=[%s]", impl.Label, roleName(localRole), typesOf(peerSent), typesOf(localSent))
		notAllowed := 0
		for _, e := range ep.errs {
			if strings.Contains(e.Error(), "not allowed") || strings.Contains(e.Error(), "unknown message") {
				notAllowed++
			}
		}
		if garbage && !expectError {
			// every complete message was permitted; the trailing garbage must end the protocol
			if len(ep.handled) > expectHandled {
				rt.Violate("C11/handled-too-many", "%s: application saw %d messages, at most %d precede the malformed bytes", desc, len(ep.handled), expectHandled)
				return
			}
			if len(ep.errs) == 0 {
				rt.Violate("C11/no-error-for-malformed-bytes", "%s: malformed bytes after %d messages, no error reported", desc, len(peerSent))
				return
			}
			if !ep.done {
				rt.Violate("C11/not-stopped-after-error", "%s: error reported (%v) but DoneChan still open", desc, ep.errs[0])
			}
			return
		}
		if len(ep.handled) != expectHandled && !(garbage && len(ep.handled) < expectHandled) {
			cls := "C11/handled-count"
			if len(ep.handled) > expectHandled {
				cls = "C11/handled-too-many"
			}
			rt.Violate(cls, "%s: application saw %d messages, the declared state machine admits exactly %d (error expected: %v, errors: %v)", desc, len(ep.handled), expectHandled, expectError, ep.errs)
			return
		}
		if expectError {
			rt.Hit("advrecv.offending-message-processed")
			if len(ep.errs) == 0 {
				rt.Violate("C11/no-error-for-unpermitted-message", "%s: peer message #%d is not permitted when processed, yet no error was reported", desc, i)
				return
			}
			if !ep.done {
				rt.Violate("C11/not-stopped-after-error", "%s: error reported (%v) but the protocol's DoneChan is still open 15 simulated minutes later", desc, ep.errs[0])
				return
			}
		} else if notAllowed > 0 {
			rt.Violate("C11/spurious-rejection", "%s: every processed peer message was permitted, yet the protocol reported %v", desc, ep.errs)
			return
		}
		peer.close()
		ep.p.Stop()
		m.Stop()
	}
}

func roleName(r protocol.ProtocolRole) string {
	if r == protocol.ProtocolRoleClient {
		return "client"
	}
	return "server"
}

func typesOf(ms []protocol.Message) string {
	var b strings.Builder
	for i, m := range ms {
		if i > 0 {
			b.WriteByte(' ')
		}
		fmt.Fprintf(&b, "%d", m.Type())
	}
	return b.String()
}
